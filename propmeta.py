"""Per-property metadata used by ./check for evidence files and MANIFEST.json."""

HOOK_COMMITS = []
FIX_COMMITS = ['0a1810c', 'a823fe8', '611b765', '43d434c', 'bd77cd5', '75ae538', '463f78f', '94ec477', '5158e08', 'de159c6', '2ad7ab4']

REAL = ["nhooyr.io/websocket (all non-js code, both endpoints where libpair)", "bufio", "compress/flate", "context", "time (fake clock from testing/synctest)"]
STUB = ["transport (simrt.simnet)", "handshake plumbing (fake RoundTripper / hijacker, no bytes on the wire)"]
RAW = ["scripted raw peer built on the reference codec wsref (not the library)"]

COMMON_ASSUME = [
    "seeded sampling of schedules x faults x inputs: a clean batch is evidence, not proof",
    "GOMAXPROCS=1: interleavings at the granularity of transport operations, actor steps and (with -tags verif) the library's yield hooks",
    "compress/flate, bufio, net/http are trusted as engines",
    "runtime select tie-breaks are outside the seed; logs and oracles use error classes only",
]

META = {
    "C01": dict(
        level="exploration",
        level_text="Seeded simulation of two real endpoints (real Dial+Accept) over a simulated transport that splits, back-pressures and reorders goroutine progress; every message is compared byte-for-byte with what was written and the wire bytes are decoded by an independent RFC 6455/7692 reference decoder. Sampling, not proof: the space (sizes x chunkings x modes x thresholds x schedules) is unbounded.",
        level_note="Trusts compress/flate as DEFLATE engine (shared by library and reference), the fake clock of testing/synctest, and the reference codec in /verif/sim/wsref.",
        technique="deterministic simulation: seeded scheduler + simulated transport, reference-model oracle (FIFO of messages + independent wire decode)",
        design_ref="DESIGN.md 6 C01",
        rule="run = one tape: (client mode, server mode, thresholds, message lists per direction with sizes biased to 0/1/125/126/127/thresholds+-1/4095-4097/8191-8193/32767-32769/65535-65537 and >=1 MiB in ~4% of runs, Write or chunked Writer, reader API and buffer size, pipe capacity, chunk policies, scheduler stickiness, every scheduling choice). Non-trivial = at least one message written and read back; distinct = distinct SHA-256 of the full event log (scheduler picks with simulated time + per-actor results).",
        real=REAL, stub=STUB, assumptions=COMMON_ASSUME,
    ),
    "C03": dict(
        level="exploration",
        level_text="Seeded simulation of one real endpoint (either role, every negotiated takeover combination) fed by a scripted raw peer with generated frame scripts (valid, with 0-2 injected violations, mutated and noise byte strings) delivered in transport chunks down to one byte; reads, pongs, close echo and failure point are compared with an independent RFC 6455/7692 reference decoder. Panics anywhere are caught. Sampling, not proof.",
        level_note="Trusts compress/flate as DEFLATE engine and the reference decoder /verif/sim/wsref; content decoded from malformed DEFLATE, UTF-8 validity and non-minimal length encodings are excluded as the property says.",
        technique="deterministic simulation: scripted raw peer + simulated transport chunking, reference-decoder oracle",
        design_ref="DESIGN.md 6 C03",
        rule="run = one tape: (role, library mode, negotiated extension parameters, read limit, script of 1-6 items: data messages with fragmentation plans incl. empty fragments, compressed with takeover/no takeover, BFINAL endings, flush points; interleaved Ping/Pong; 0-2 violations from 13 kinds at drawn positions; Close / EOF ending; 12% raw mutated/noise streams; reader API and buffer size or CloseRead; transport chunk policy; schedule). Non-trivial = non-empty inbound stream; distinct = distinct event-log SHA-256.",
        real=REAL, stub=STUB + RAW, assumptions=COMMON_ASSUME,
    ),
    "C04": dict(
        level="fault_enumeration",
        level_text="For each enumerated script (small multi-message, multi-fragment, compressed and uncompressed streams, both roles) the transport is ended at EVERY byte offset 0..len(stream), with both EOF and a reset-like error, for 9 reader APIs/buffer sizes and two transport chunkings; the reference decoder over the delivered prefix says which messages are complete and what the cut message's true payload is. Larger scripts (up to ~600 KiB, crossing bufio and flate-window boundaries) are sampled with offsets biased to headers, fragment boundaries, frame tails and 4096 multiples. The cut-offset dimension of the enumerated scripts is exhaustive; scripts themselves are sampled.",
        level_note="Trusts the reference decoder and compress/flate; clean end = bare io.EOF sentinel from a message reader or a nil error from Read/wsjson.Read.",
        technique="deterministic simulation with exhaustive fault placement (transport cut at every byte offset), reference-decoder oracle",
        design_ref="DESIGN.md 6 C04",
        rule="enumerated part: forced tape prefix (script seed, cut offset k, EOF|reset, reader API in {Reader buf 1,2,3,5,64,4096; Read; NetConn.Read; wsjson.Read}, chunking all|1-byte) for every k of every enumerated script; random part: large scripts with biased offsets. Non-trivial = every run (a cut is always placed); distinct = distinct event-log SHA-256.",
        exhaustive="cut offset 0..len(stream) x {EOF, reset} x 9 reader APIs x 2 chunkings, for each enumerated script",
        real=REAL, stub=STUB + RAW, assumptions=COMMON_ASSUME,
    ),
    "C02": dict(
        level="exploration",
        level_text="Seeded simulation of one real endpoint (either role; every negotiated takeover combination, including asymmetric ones reached through foreign offers/responses) running 1-3 concurrent writers (Write / chunked Writer), a pinger and a Close, against a scripted raw peer that records every emitted byte; the frame stream is validated frame by frame by an independent RFC 6455/7692 decoder (masking and key freshness, minimal lengths, control-frame rules, fragment sequencing, RSV bits, inflation under the sender's negotiated takeover flag, Close payload) and the reassembled messages must be an order-preserving interleaving of what was written. Sampling, not proof.",
        level_note="Trusts the reference codec and compress/flate; mask-key freshness is checked as 'no 4 consecutive equal keys' (false alarm probability 2^-96).",
        technique="deterministic simulation: seeded schedule of concurrent API calls + simulated transport, wire-level reference-decoder oracle",
        design_ref="DESIGN.md 6 C02",
        rule="run = one tape: (role, library mode, negotiated extension parameters, threshold, 1-3 writers x 1-4 messages with boundary-biased sizes and chunk plans, 0-2 pings, Close code/reason and early/late placement, pipe capacity and write chunking, schedule). Non-trivial = every run (at least one message is written); distinct = distinct event-log SHA-256.",
        real=REAL, stub=STUB + RAW, assumptions=COMMON_ASSUME,
    ),
    "C09": dict(
        level="fault_enumeration",
        level_text="On the fake clock of a synctest bubble, one real endpoint is put into each of 7 local states (idle, reader blocked, message half read inside/at the end of a frame, CloseRead active, writer blocked on a full pipe, Ping waiting) and then calls Close or CloseNow (or lets CloseRead close by itself) against each of 10 scripted adversaries: silent, stall after byte k of a data frame with a 2/4/10-byte length form or of a Close frame for EVERY k (thorough) / a stratified subset (quick), endless data frames, a 2^62-byte frame streamed forever, a peer that never reads, half-close, Close echo after 0/4.9/5.1 s. Measured in simulated time: Close <= 11 s, CloseNow <= 1 s, every blocked call back within 1 s of that, CloseRead's context cancelled within 1 s of the transport being closed. The enumerated product is complete in the thorough tier; schedules on top of it are sampled.",
        level_note="The scheduler adds no simulated time; 1 s of slack is not an implementation constant (observed values are 0). Trusts testing/synctest's fake clock.",
        technique="deterministic simulation on a fake clock with exhaustive placement of the peer fault (stall offset x adversary x local state x call)",
        design_ref="DESIGN.md 6 C09",
        rule="enumerated: forced tape prefix (role, adversary, stall offset k / echo delay, local state, call); random part draws the same dimensions plus compression, a delay before the call and scheduler stickiness. Non-trivial = every run (an adversary is always active); distinct = distinct event-log SHA-256.",
        exhaustive="adversary x stall offset x local state x call x role (thorough tier)",
        real=REAL, stub=STUB + RAW, assumptions=COMMON_ASSUME,
    ),
    "C16": dict(
        level="exploration",
        level_text="Seeded simulation of one real endpoint with 0-3 writers (Write / two-chunk Writer) and a pinger kept busy behind a back-pressured transport, and one of 7 close triggers (local Close, peer Close, protocol violation, read-limit overflow, CloseRead receiving data, NetConn wrong type, wsjson bad JSON) fired at a drawn scheduler step, with the peer echoing at once, late or never and optionally sending data after its own Close. The complete frame trace recorded by the raw peer is scanned: after the first Close frame no text/binary/continuation frame and no second Close frame. Sampling of schedules, not proof.",
        level_note="Ping/Pong after Close are not data frames and are not flagged. Trusts the reference frame parser.",
        technique="deterministic simulation: seeded interleaving of writers/pingers with a close trigger, wire-trace oracle at the scripted peer",
        design_ref="DESIGN.md 6 C16",
        rule="run = one tape: (role, negotiation, trigger kind, echo policy, number of writers/pingers, message size, Write vs Writer, pipe capacity and write chunking, firing step, schedule). Non-trivial = every run; distinct = distinct event-log SHA-256.",
        real=REAL + ["wsjson", "NetConn adapter"], stub=STUB + RAW, assumptions=COMMON_ASSUME,
    ),
    "C06": dict(
        level="exploration",
        level_text="Seeded simulation of the close handshake in three scenarios - the library closing against a scripted raw peer (echo with the same code / another code / never / after 1 ms..6 s, with late data before the echo, with or without a pending reader), the raw peer closing at a message boundary before/between/after messages against a pending Reader, CloseRead or a later Read, and two real endpoints - followed by a drawn, partly concurrent program of Read/Write/Writer/Ping/Close/CloseNow on the closed connections. The status-code dimension of the library-initiated scenario is enumerated completely in the thorough tier (0..65535 plus out-of-range values, both roles) and over 36 boundary codes x 6 reason lengths in the quick tier; everything else is sampled.",
        level_note="Close-code table written from RFC 6455 7.4 and the IANA registry (valid on the wire: 1000-1003, 1007-1014, 3000-4999); timing of Close is C09's, frame order after the Close frame is C16's.",
        technique="deterministic simulation: scripted peer + fake clock, close state machine and code-table oracle; status codes enumerated",
        design_ref="DESIGN.md 6 C06",
        rule="enumerated: forced tape prefix (scenario, role, code, reason length, echo mode); random: scenario, role, code, reason, echo mode and delay, reader mode, messages before the close, compression, post-close program of 2-6 calls per actor on 1-2 actors per connection, schedule. Non-trivial = every run; distinct = distinct event-log SHA-256.",
        exhaustive="status code (0..65535, -1, 65536, 1<<20) x role for library-initiated Close; all receivable codes x role for peer-initiated Close (thorough tier)",
        real=REAL, stub=STUB + RAW, assumptions=COMMON_ASSUME,
    ),
    "C15": dict(
        level="exploration",
        level_text="Seeded simulation of one real endpoint with 0-6 concurrent Ping calls (own contexts of 1 s / 3 s / 30 s) against a scripted raw peer that answers the Ping frames it sees in order, reversed, shuffled, duplicated, with one or all withheld, with foreign payloads first, or 2 s late, optionally after unsolicited pongs that guess the library's payloads; in the same runs the peer sends 0-7 pings of 0..125 bytes before, between and inside fragmented (compressed) messages while the library reads with a Reader loop or CloseRead and 0-2 writers are active. History oracle over step-stamped events: the Ping calls that returned nil must be matchable to distinct ping payloads for which a pong was sent inside the call's [invoke, return] window; errors arrive within 1 s of the context's end; the pong payload sequence received equals the ping sequence sent. Sampling, not proof.",
        level_note="Trusts the reference frame codec; a pong that arrives after a ping registered but before its frame was written counts as that ping's pong (the statement only requires that it carries the ping's payload).",
        technique="deterministic simulation: scripted pong policies + seeded schedule, history check (bipartite matching of nil returns to ponged payloads)",
        design_ref="DESIGN.md 6 C15",
        rule="run = one tape: (role, negotiation, number of pings and their timeouts, pong policy, unsolicited pongs, CloseRead vs reader, inbound pings and messages with fragmentation, writers, capacities/chunking, schedule). Non-trivial = every run (at least one ping in one direction); distinct = distinct event-log SHA-256.",
        real=REAL, stub=STUB + RAW, assumptions=COMMON_ASSUME,
    ),
    "C10": dict(
        level="exploration",
        level_text="Seeded simulation on the fake clock of one real endpoint (either role, with/without compression) executing a program of 3-14 calls (Read, Reader+reads, Write, two-chunk Writer, Ping) each with its own context, cancelled immediately after the call returned, by a timer 1 ms..40 s later, by a timeout that fires later, or never, with idle periods of up to 20 s in between so that those cancellations fire while later calls run or while the connection is idle; inbound messages are fragmented with pings in between (handleControl's derived contexts). The run ends with a full round trip after every context has ended, or with a call whose context ends (deadline or cancel) while the simulator holds it blocked in transport I/O (message withheld / peer not reading / pong withheld), or with an already-cancelled context. Sampling, not proof.",
        level_note="'Connection is closed' is asserted only when the simulator saw the call blocked in transport I/O at the instant the context ended (the library documents closing for I/O; Ping's wait for a pong demonstrably does not close). An already-cancelled context only has to terminate.",
        technique="deterministic simulation: fake clock + scripted peer that withholds/releases I/O, continuous connection-alive monitor",
        design_ref="DESIGN.md 6 C10",
        rule="run = one tape: (role, negotiation, flavour reader/ping, per call: kind, cancellation mode and delay, idle time, message size, fragmentation, interleaved pings; terminal kind; chunk policies; schedule). Non-trivial = every run; distinct = distinct event-log SHA-256.",
        real=REAL, stub=STUB + RAW, assumptions=COMMON_ASSUME,
    ),
    "C18": dict(
        level="exploration",
        level_text="Seeded simulation of the net.Conn adapter in three scenario families: (A) two real endpoints wrapped by NetConn exchanging drawn sequences of Write sizes (0..70 000, boundary-biased) against drawn Read buffer sizes (1..70 000) in both directions under all compression modes and transport chunkings, ended by a normal Close; (B/C) one endpoint against a scripted raw peer that ends with Close 1000/1001 (io.EOF, repeatably), other codes, a transport cut, or a message of the wrong type (Close 1003 expected at the peer); (D) deadline programs on the fake clock: deadlines in the past/future/zero set while idle, slept past, reported by the next Read/Write as deadline errors without closing anything, reset (zero or far future) and followed by a full round trip; and deadlines that fire while the simulator holds a Read (nothing sent) or Write (peer not draining) blocked, which must fail within 1 s and close the connection. Sampling, not proof.",
        level_note="Idle and active deadlines are kept unambiguous (the actor sleeps past an idle deadline; the transport holds an active call until after its deadline); the documented race of a call issued at the instant a past deadline's timer is due is not generated.",
        technique="deterministic simulation: fake clock + simulated transport + scripted peer, byte-stream reference model and deadline state model",
        design_ref="DESIGN.md 6 C18",
        rule="run = one tape: scenario family; (A) modes, message type, write sizes per direction, read buffer sizes, pipe knobs, who closes; (B/C) role, ending kind and code, messages with fragmentation, read buffer; (D) role, 1-6 steps from {round trip, idle read/write/both deadline with duration -1h..30s and reset kind, future deadline} and a terminal {none, active read, active write} with 1 ms..10 s. Non-trivial = every run; distinct = distinct event-log SHA-256.",
        real=REAL + ["NetConn adapter"], stub=STUB + RAW, assumptions=COMMON_ASSUME,
    ),
    "C08": dict(
        level="exploration",
        level_text="Seeded simulation of one real endpoint (either role, every negotiated parameter set) receiving from a scripted raw peer 1-3 messages whose sizes sit around the current read limit (limit-1, limit, limit+1, 2x, 10x, random below) for limits {default 32768, 0, 1, 125, 126, 4096, 65536, 1 MiB, -1}, optionally changed between messages, in any fragmentation, compressed or not; plus a compressed 8 MiB message of zeros (ratio > 1000:1) and frames declaring up to 2^63-1 bytes followed by a few KiB and EOF or a stall; through Read, Reader with small buffers, wsjson.Read and NetConn.Read (which must not limit). Oracle: <= limit delivered intact, > limit never reported complete, at most limit+1 bytes handed over and a prefix of the message, Close 1009 seen by the peer; memory: runtime TotalAlloc delta over the receive phase (GC off) <= 3 MiB + 8 x bytes delivered (or deliverable under the limit). Sampling, not proof.",
        level_note="The memory bound is far above legitimate fixed costs (flate reader ~40 KiB, bufio 4 KiB, io.ReadAll's 1.25x growth which allocates ~5x the final size in total) and far below the declared / inflated sizes used, so it does not mirror implementation constants. Harness allocations inside the window (peer read buffers) are part of the 3 MiB slack.",
        technique="deterministic simulation: scripted peer with sizes around the limit, compression bomb and huge declared lengths; allocation accounting as resource oracle",
        design_ref="DESIGN.md 6 C08",
        rule="run = one tape: (role, negotiation, reader API, limit, 1-3 message sizes relative to the limit with fragmentation and compression, limit changes, special case none/bomb/huge-declared, EOF or stall ending, chunk policy, schedule). Non-trivial = every run; distinct = distinct event-log SHA-256.",
        real=REAL + ["wsjson", "NetConn adapter"], stub=STUB + RAW, assumptions=COMMON_ASSUME,
    ),
    "C20": dict(
        level="exploration",
        level_text="Seeded simulation of histories of 1-6 connections opened and closed one after another (25%: two interleaved sequences) inside one bubble, each with drawn prior operations (writes, a ping, CloseRead, NetConn with a deadline, an abandoned half-read message, an abandoned Writer) and one of 10 endings (Close, CloseNow, peer Close then Close/CloseNow, protocol error then CloseNow, context expiry then Close, transport EOF then Close, transport error then CloseNow, silent peer Close, CloseRead closing on a data message then Close), on both roles, against a scripted peer or a second real endpoint. After each Close/CloseNow returns the scheduler waits for quiescence and parses the goroutine dump of the bubble: goroutines created by the library (newConn -> timeoutLoop, CloseRead's reader) may not exceed those of connections still open, and none may remain at the end. Independently the bubble must end without synctest's 'blocked goroutines remain' panic. Sampling, not proof.",
        level_note="Library goroutines are recognised by their 'created by nhooyr.io/websocket.newConn / (*Conn).CloseRead' line; the wait inside Close itself (<= 15 s of fake time) is allowed here, its promptness is C09's.",
        technique="deterministic simulation: seeded histories x endings, goroutine-dump oracle at scheduler quiescence + end-of-bubble leak detection",
        design_ref="DESIGN.md 6 C20",
        rule="run = one tape: (number of connections, sequential or two interleaved sequences, per connection: pair/raw, role, compression, prior operations, ending kind; schedule). Non-trivial = every run (each closes at least one connection); distinct = distinct event-log SHA-256.",
        real=REAL + ["NetConn adapter"], stub=STUB + RAW, assumptions=COMMON_ASSUME,
    ),
    "C19": dict(
        level="exploration",
        level_text="Seeded simulation of 1-3 concurrently open real endpoints (both roles, all negotiated parameter sets) each reading 1-5 JSON documents sent by a scripted raw peer as (fragmented) text messages - values from a recursive generator (objects, arrays, unicode/escaped strings, strings beyond the default read limit with the limit raised, numbers, null, bool) into interface{}, a typed struct, json.RawMessage and []byte targets - with their wsjson.Read calls interleaved by the scheduler so that pooled buffers pass between connections, followed by wsjson.Write of drawn values. Every decoded result is retained and re-marshalled at the end of the run (aliasing of a pooled buffer would change it). The last document of a connection may be truncated, malformed, followed by garbage, of the wrong type for the target, empty, or over the limit: error plus Close 1007 / 1009 at the peer. The wire must carry exactly one text message per wsjson.Write whose payload is JSON-equivalent. Sampling, not proof.",
        level_note="JSON equivalence = equal after decoding into interface{} (encoding/json is trusted); binary messages carrying valid JSON are not asserted either way.",
        technique="deterministic simulation: interleaved wsjson reads on several connections sharing the buffer pool, retained-result re-verification, wire decode by the reference codec",
        design_ref="DESIGN.md 6 C19",
        rule="run = one tape: (number of connections; per connection role, negotiation, limit, 1-5 documents with target type and fragmentation, invalid-document kind, 0-3 values to write; chunk policy; schedule). Non-trivial = every run; distinct = distinct event-log SHA-256.",
        real=REAL + ["wsjson", "internal/bpool"], stub=STUB + RAW, assumptions=COMMON_ASSUME,
    ),
    "C07": dict(
        level="exploration",
        level_text="Seeded simulation of 2-4 slots that each open 1-3 real connections one after another (both roles, all negotiated parameter sets), so that several connections are open at once and later ones draw from the pools (sync.Pool contents are deterministic: GC is off during a run and the pools are emptied between runs). Every payload byte is provenance-tagged (connection, direction, message, word index), inbound messages are mostly compressed and fragmented, and the per-message action is drawn: read to EOF; read again 1-3 times after EOF while other connections progress; abandon after j bytes and Close; exceed the read limit; peer Close frame or protocol violation between the fragments of a (compressed) message; context expiry or CloseNow in the middle of a message. Oracle: every byte any Read returns is the next byte of that connection's own message; a Read after end-of-message returns no bytes; close reasons are the connection's own; what the library writes (checked at the raw peers) carries its own tags and inflates. The same seeds run on the race-detector build. Sampling, not proof.",
        level_note="Trusts the reference codec; pool hand-over between connections is made likely by construction (GC off, GOMAXPROCS=1) but is not counted without the verif hooks.",
        technique="deterministic simulation: several connections interleaved by the seeded scheduler over shared pools, provenance-tag oracle; race-detector build as second detector",
        design_ref="DESIGN.md 6 C07",
        rule="run = one tape: (slots, generations per slot, per connection role/negotiation, per message size, compression, fragmentation, action, re-read count, abandon offset, read buffer; chunk policies; schedule). Non-trivial = every run; distinct = distinct event-log SHA-256.",
        real=REAL, stub=STUB + RAW, assumptions=COMMON_ASSUME, race=dict(quick=600, thorough=25000),
    ),
    "C05": dict(
        level="exploration",
        level_text="Seeded simulation of one real endpoint used concurrently by 2-5 writers (Write and two-chunk Writer, messages tagged with writer id and sequence number in every 8-byte word), 0-2 pingers and its own reader, while a closer fires at a drawn scheduler step with Close, CloseNow, expiry of the peer reader's context, or a peer-initiated Close - against a second real endpoint (60%) or a scripted raw peer, both roles, all compression modes and thresholds, with a transport that blocks, splits and back-pressures writes. Oracles: the emitted byte stream parses as conformant frames with no interleaving of data messages (reference decoder); every message received equals exactly one written message, none twice, per-writer sequence increasing; a read interrupted by the close has only handed over a prefix of one written message. The same seeds run on the race-detector build; any DATA RACE report with a library frame is a violation. With -tags verif the library's yield hooks split the windows inside lock hand-over and close. Sampling of interleavings, not proof.",
        level_note="GOMAXPROCS=1: weak-memory effects are visible only as happens-before races to the race detector on explored schedules. Delivery of everything written is demanded only when nothing interrupted the writers.",
        technique="deterministic simulation: seeded interleaving of concurrent API users with a close at an arbitrary step; tagged-message and wire oracles; race-detector build",
        design_ref="DESIGN.md 6 C05",
        rule="run = one tape: (pair/raw, role, modes and thresholds, writers with sizes and API, pingers, closer kind and firing step, pipe capacity and write chunking, stickiness, every scheduling choice). Non-trivial = every run; distinct = distinct event-log SHA-256.",
        real=REAL, stub=STUB + RAW, assumptions=COMMON_ASSUME, race=dict(quick=600, thorough=30000),
    ),
}

NOT_APPLICABLE = [
    dict(property_id="C12", reason="pure function of (Host, Origin, OriginPatterns, InsecureSkipVerify) computed before any byte is written: no schedule, clock, fault, stream position or second party for a simulator to control; input generation alone would not be deterministic simulation (DESIGN.md 7)"),
    dict(property_id="C17", reason="pure function of (buffer, alignment, key); the assembly variant is not reachable from a connection. Carrying the rotated key across transport-decided chunk boundaries is exercised under C01/C02/C03, but that does not decide C17 (DESIGN.md 7)"),
]
