"""Per-property metadata used by ./check for evidence files and MANIFEST.json."""

HOOK_COMMITS = []

REAL = ["nhooyr.io/websocket (all non-js code, both endpoints where libpair)", "bufio", "compress/flate", "context", "time (fake clock from testing/synctest)"]
STUB = ["transport (simrt.simnet)", "handshake plumbing (fake RoundTripper / hijacker, no bytes on the wire)"]
RAW = ["scripted raw peer built on the reference codec wsref (not the library)"]

COMMON_ASSUME = [
    "seeded sampling of schedules x faults x inputs: a clean batch is evidence, not proof",
    "GOMAXPROCS=1: interleavings at the granularity of transport operations, actor steps and (with -tags verif) the library's yield hooks",
    "compress/flate, bufio, net/http are trusted as engines",
    "runtime select tie-breaks are outside the seed; logs and oracles use error classes only",
]

META = {
    "C01": dict(
        level="exploration",
        level_text="Seeded simulation of two real endpoints (real Dial+Accept) over a simulated transport that splits, back-pressures and reorders goroutine progress; every message is compared byte-for-byte with what was written and the wire bytes are decoded by an independent RFC 6455/7692 reference decoder. Sampling, not proof: the space (sizes x chunkings x modes x thresholds x schedules) is unbounded.",
        level_note="Trusts compress/flate as DEFLATE engine (shared by library and reference), the fake clock of testing/synctest, and the reference codec in /verif/sim/wsref.",
        technique="deterministic simulation: seeded scheduler + simulated transport, reference-model oracle (FIFO of messages + independent wire decode)",
        design_ref="DESIGN.md 6 C01",
        rule="run = one tape: (client mode, server mode, thresholds, message lists per direction with sizes biased to 0/1/125/126/127/thresholds+-1/4095-4097/8191-8193/32767-32769/65535-65537 and >=1 MiB in ~4% of runs, Write or chunked Writer, reader API and buffer size, pipe capacity, chunk policies, scheduler stickiness, every scheduling choice). Non-trivial = at least one message written and read back; distinct = distinct SHA-256 of the full event log (scheduler picks with simulated time + per-actor results).",
        real=REAL, stub=STUB, assumptions=COMMON_ASSUME,
    ),
}

NOT_APPLICABLE = [
    dict(property_id="C12", reason="pure function of (Host, Origin, OriginPatterns, InsecureSkipVerify) computed before any byte is written: no schedule, clock, fault, stream position or second party for a simulator to control; input generation alone would not be deterministic simulation (DESIGN.md 7)"),
    dict(property_id="C17", reason="pure function of (buffer, alignment, key); the assembly variant is not reachable from a connection. Carrying the rotated key across transport-decided chunk boundaries is exercised under C01/C02/C03, but that does not decide C17 (DESIGN.md 7)"),
]
