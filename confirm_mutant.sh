#!/bin/bash
# usage: confirm_mutant.sh <id> <PROP>   (expects /tmp/mut/<id> worktree and /tmp/mut/<id>.out deliverables)
# Confirms in a fresh scratch worktree: compiles, suite passes with the change, demo fails with it and passes without it.
id="$1"; prop="$2"
out=/tmp/mut/$id.out
export GOFLAGS=-mod=mod GOPROXY=off GOSUMDB=off
wt=/tmp/mut/confirm-$id
git -C /repo worktree remove --force $wt 2>/dev/null
git -C /repo worktree add --detach $wt HEAD >/dev/null 2>&1 || exit 2
cd $wt
res=()
git apply $out/patch.diff || { echo "PATCH DOES NOT APPLY"; exit 2; }
go build ./... || { echo "DOES NOT COMPILE"; exit 2; }
# (the suite's own goroutine-leak check in TestMain is load-sensitive: one retry)
if go test -vet=off -count=1 ./... >/tmp/mut/$id.suite.log 2>&1 || go test -vet=off -count=1 ./... >/tmp/mut/$id.suite.log 2>&1; then res+=("suite_with_change=pass"); else res+=("suite_with_change=FAIL"); fi
demo=$(ls $out/*_test.go | head -1)
pkgline=$(grep -m1 '^package' $demo)
dest=$wt/zz_mutant_demo_test.go
case "$pkgline" in *wsjson*) dest=$wt/wsjson/zz_mutant_demo_test.go;; esac
cp $demo $dest
dir=$(dirname $dest)
if (cd $dir && go test -vet=off -count=1 -run 'Mutant|Demo|Seeded' . >/tmp/mut/$id.demo_with.log 2>&1); then res+=("demo_with_change=pass(!)"); else res+=("demo_with_change=fail"); fi
git apply -R $out/patch.diff
if (cd $dir && go test -vet=off -count=1 -run 'Mutant|Demo|Seeded' . >/tmp/mut/$id.demo_without.log 2>&1); then res+=("demo_without_change=pass"); else res+=("demo_without_change=FAIL"); fi
echo "${res[@]}"
grep -E "^(--- |FAIL|ok|PASS)" /tmp/mut/$id.demo_with.log | head -5
cd /; git -C /repo worktree remove --force $wt
