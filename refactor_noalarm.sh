#!/bin/bash
# usage: refactor_noalarm.sh [patch ...]   (default: every /verif/refactors/*.diff)
# Behaviour-preserving changes must not raise an alarm: each patch is applied to an exported copy of
# /repo's HEAD (CHECK_SCRATCH mode, /repo is not touched) and EVERY registered quick check is run on it.
# Prints one line per (patch, check) that does not exit 0, and a summary line per patch.
cd /verif || exit 2
W=${WORKERS:-8}
patches="$@"; [ -z "$patches" ] && patches=$(ls /verif/refactors/*.diff)
props=${PROPS:-$(python3 -c "import propmeta;print(' '.join(sorted(propmeta.META)))")}
bad=0
for pf in $patches; do
  name=$(basename $pf .diff)
  scratch=$(mktemp -d /tmp/refac-run.XXXXXX); mkdir -p $scratch/repo
  git -C /repo archive HEAD | tar -x -C $scratch/repo
  ( cd $scratch/repo && patch -p1 -s < $pf ) || { echo "$name: patch does not apply"; rm -rf $scratch; continue; }
  alarms=""
  for p in $props; do
    out=$(CHECK_SCRATCH=$scratch ./check $p --tier quick --workers $W 2>&1); rc=$?
    if [ $rc -ne 0 ]; then alarms="$alarms $p(rc=$rc)"; echo "$name $p rc=$rc"; echo "$out" | grep -a -E "VIOLATION|  [a-z-]+/|BUILD|HANG|diverg" | cut -c1-400 | head -6; mkdir -p /tmp/refac-keep/$name; cp -r $scratch/replays /tmp/refac-keep/$name/ 2>/dev/null; fi
  done
  if [ -z "$alarms" ]; then echo "$name: no alarm in $(echo $props | wc -w) checks"; else echo "$name: ALARMS:$alarms"; bad=1; fi
  rm -rf $scratch
done
exit $bad
