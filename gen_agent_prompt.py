#!/usr/bin/env python3
"""Writes the brief for a fresh sub-agent that is asked for a property-breaking change.
usage: gen_agent_prompt.py <PROP> <new-id> [region hint ...]
The brief contains the property's text, the worktree to use and one-line summaries of the seeded
changes already kept for that property (so that the new one is different) - nothing about the checks."""
import json, sys, glob, os
prop, nid = sys.argv[1], sys.argv[2]
hint = " ".join(sys.argv[3:])
P = None
for l in open('/verif/properties.jsonl'):
    p = json.loads(l)
    if p['id'] == prop: P = p
used = []
for d in sorted(glob.glob('/verif/seeded/%s-*' % prop)):
    m = json.load(open(d + '/meta.json'))
    used.append("- " + m['needs_to_manifest'])
txt = f"""You are helping to evaluate a verification effort for the Go library nhooyr.io/websocket (a minimal WebSocket library: RFC 6455 framing, handshake, close handshake, ping/pong, permessage-deflate, net.Conn adapter).

Your own scratch git worktree of the library is at /tmp/mut/{nid} (already created; work ONLY there and in /tmp/mut/{nid}.out; never touch /repo or /verif, and do not read anything under /verif).
Every shell call needs: export GOFLAGS=-mod=mod GOPROXY=off GOSUMDB=off   (the sandbox has no network; use the default `go`).
The existing test suite is run with: cd /tmp/mut/{nid} && go test -vet=off -count=1 ./...   (about 10 s; also cd internal/thirdparty && go test -vet=off -count=1 ./... if you touch anything it uses)

This semantic property of the library is supposed to hold:

  id: {P['id']}
  title: {P['title']}
  statement: {P['statement']}
  quantifier: {P['quantifier']['text']}

TASK: make ONE small, realistic change to the library's non-test, non-js Go source (the kind of slip a maintainer could make in a refactor, an optimisation, or a bug fix elsewhere: a moved statement, a wrong condition, a lock released early, a reused buffer, a missing re-check, a boundary off by one, a forgotten case) that BREAKS this property, while
  1. the library still compiles,
  2. the whole existing test suite still passes (run it at least twice), and
  3. the breakage needs something specific to manifest: a particular interleaving of goroutines, a fault or stall or cut of the transport at a particular point, a multi-step sequence of API calls, an unusual input or configuration, or two cooperating sites that each look fine alone. Changes that ordinary use would expose at once (every message corrupted, every Close failing) are not wanted. Prefer a breakage that depends on TIMING or FAULTS (which goroutine gets a lock first, a peer that stalls or disappears at a particular byte, a timer that fires at a particular moment, a write that blocks) over one that only depends on an unusual input value.
Do not touch test files, do not add build tags, do not change files named verif_on.go / verif_off.go, keep the calls to simYield/simNote as they are (they are no-ops in a normal build).

The following ideas have ALREADY been used for this property; yours must be a different mechanism in a different part of the code (not a variation of one of these):
{chr(10).join(used)}
These slips have been used (several times) for OTHER properties of the same library and are not wanted again either: bufio.Reader.Read instead of io.ReadFull in readFramePayload/readFrameHeader; `defer mw.mu.unlock()` in msgWriter.Close; dropping the Clone of DialOptions.HTTPHeader; `payloadLength -= len(p)` instead of n; RSV1 carried over to control frames through the shared header; forceLock replaced by tryLock / dropped in msgWriter.close or msgReader.close; the masking key drawn before the frame lock; a shared package-level compressionOptions / key buffer; returning before unmasking on a failed read; closeFrameSent checked or set outside the frame lock; moving msgWriter.close before rwc.Close in Conn.close; timeoutLoop storing the write context in the read slot; netConn.read dropping bytes that arrive together with io.EOF; the ping payload built in a shared scratch buffer; the write timeout armed before the frame lock is taken; the buffered bytes of the hijacked reader dropped in accept; removing the reset of limitReader.r after a compressed message; an unchecked error of a header read in readFrameHeader; 'defer c.writeFrameMu.unlock()' moved above the error check of the lock attempt in writeFrame; the guard of the inflate-window update in msgReader.Read reduced to 'mr.dict != nil'; opContinuation missing from the opcodes refused after a close frame; a package-level put function called instead of the method that also clears the field (putFlateReader / putFlateWriter); the write timeout armed or disarmed at a different point of writeFrame (after the header, before the flush, only for non-empty payloads).
{('Suggested region to look at first (only a suggestion; these functions have hardly been touched so far): ' + hint) if hint else ''}

DELIVERABLES, all in /tmp/mut/{nid}.out/ :
  - patch.diff : output of `git diff` in the worktree (library change only, no test files); must apply with `git apply` to a clean checkout of the same commit.
  - demo_test.go : ONE Go test file (package websocket or websocket_test, placed in the repository root when run; or package wsjson / wsjson_test if it must live in wsjson/) containing a test whose name starts with TestMutant, that FAILS with your change and PASSES without it, deterministically (no reliance on lucky timing: use net.Pipe / custom io.ReadWriteCloser transports / channels to force the interleaving or fault; it may use internal identifiers if in package websocket; keep it under 30 s). Do not leave the demo file inside the worktree when you produce patch.diff.
  - notes.md : 10-20 lines: what the change is, why it breaks the property as stated, what exactly it needs in order to manifest, and why the existing tests do not notice.
Before finishing verify yourself: (a) suite passes with the change, (b) demo fails with the change, (c) reverse the change with `git diff > /tmp/mut/{nid}.out/patch.diff && git apply -R /tmp/mut/{nid}.out/patch.diff` (NEVER use `git stash`: the stash is shared by all worktrees of the repository and other agents are working in sibling worktrees): demo passes without it; then re-apply with `git apply`. Report in your final answer a 5-line summary (file/function changed, mechanism, what it needs to manifest, results of a/b/c).
"""
os.makedirs('/tmp/mut/%s.out' % nid, exist_ok=True)
open('/tmp/mut/%s.prompt' % nid, 'w').write(txt)
print(txt)
