#!/bin/bash
# usage: wave.sh <id> [check-prop]   confirm + try a delivered seeded change (deliverables in /tmp/mut/<id>.out)
id=$1; prop=${2:-${id%%-*}}
echo "== $id"
/verif/confirm_mutant.sh $id $prop 2>&1 | grep -E "suite_with_change|PATCH|COMPILE" | head -2
/verif/trymut.sh /tmp/mut/$id.out/patch.diff $prop 2>&1 | grep -a -E "tier=|  [a-z-]+/|BUILD|HANG" | cut -c1-260 | head -4
