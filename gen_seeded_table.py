#!/usr/bin/env python3
"""Regenerates the table of seeded changes of waves 2+ in DESIGN.md (between the
seeded-table markers) from /verif/seeded/*/meta.json."""
import json, os, re, glob
rows = []
for d in sorted(glob.glob('/verif/seeded/*/')):
    m = json.load(open(d + 'meta.json'))
    if m['id'].endswith('-a'):
        continue
    first = 'missed at first' in m['detection'].lower()
    det = re.sub(r'(?i)\*{0,2}missed at first\*{0,2}', '**missed at first**', m['detection'].replace('|', '/'))
    rows.append((m['id'], m['needs_to_manifest'].replace('|', '/'), det, first))
out = ['| id | needs | caught by (quick, seed 1) |', '|---|---|---|']
for r in rows:
    out.append('| %s | %s | %s |' % r[:3])
n_all = len(glob.glob('/verif/seeded/*/'))
missed = [r[0] for r in rows if r[3]]
out.append('')
out.append('%d seeded changes of waves 2 and later; %d of them exposed a blind spot of a generator or scenario set when first tried (%s), which was then widened. `regress_mutants.sh` applies each of the %d kept changes to an exported copy of the library in turn and runs the quick check of the property each breaks; all are detected on the current tree.' % (len(rows), len(missed), ', '.join(missed), n_all))
s = open('/verif/DESIGN.md').read()
b, e = '<!-- seeded-table-begin -->', '<!-- seeded-table-end -->'
assert b in s and e in s
s = s[:s.index(b) + len(b)] + '\n' + '\n'.join(out) + '\n' + s[s.index(e):]
open('/verif/DESIGN.md', 'w').write(s)
print(len(rows), 'rows;', len(missed), 'missed at first')
