#!/bin/sh
# Builds the simulator test binaries (plain and race) from files on disk only.
set -e
cd "$(dirname "$0")"
export GOFLAGS=-mod=mod GOPROXY=off GOSUMDB=off GOTOOLCHAIN=local
chmod +x ./check
./check build
