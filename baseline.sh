#!/bin/sh
# Runs the repository's pinned test suite (guard OFF) and prints pass/fail counts.
cd /repo || exit 2
fail=0
for m in . ./internal/thirdparty; do
  (cd /repo/$m && go test -mod=mod -vet=off -count=1 -timeout 25m ./... ) || fail=1
done
exit $fail
