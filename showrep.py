#!/usr/bin/env python3
import json,sys,glob
for pat in sys.argv[1:]:
    for f in sorted(glob.glob(pat))[:3]:
        d=json.load(open(f))
        print('==',f); print('min',d.get('minimised'),'tape',len(d.get('tape',[])))
        print(json.dumps(d['scenario'])[:1500])
        for v in d['all_violations'][:4]: print(' *',v['oracle'],v['sig'],v['msg'][:700])
        print('\n'.join(d['trace'][-25:]))
