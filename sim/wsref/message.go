package wsref

import (
	"bytes"
	"compress/flate"
	"fmt"
	"io"
)

// Event kinds produced by the message-layer decoder.
const (
	EvMsg = iota
	EvPing
	EvPong
	EvClose
	EvViolation
)

// Event is one thing the message layer observed.
type Event struct {
	Kind       int
	Type       byte   // OpText / OpBinary for EvMsg
	Payload    []byte // message payload (inflated), ping/pong payload
	Compressed bool
	Code       int // EvClose: status code (1005 if the payload was empty)
	Reason     string
	What       string // EvViolation: which rule
	Frame      int    // index of the frame that completed / caused the event
	Frames     int    // EvMsg: number of frames the message had
	InflateErr error  // EvMsg: compressed payload did not inflate cleanly
}

// Decoder is the RFC 6455 5.4 fragmentation state machine plus RFC 7692
// receive side. It stops at the first violation.
type Decoder struct {
	ExpectMasked bool // frames from a client must be masked, from a server must not
	Deflate      bool // permessage-deflate negotiated
	Takeover     bool // the sender may keep its compression context

	open     bool
	opType   byte
	opComp   bool
	opFrames int
	buf      []byte
	dict     []byte
	n        int
	Dead     bool
	// KeepGoingAfterClose: keep decoding after a Close frame (used by checks
	// that leave "nothing follows a Close frame" to another property).
	KeepGoingAfterClose bool
	// Partial describes the message in progress (for prefix oracles).
	MaxInflate int // cap on inflated size (0 = 64 MiB)
}

// OpenMessage reports whether a fragmented message is in progress and the
// raw (still compressed, if Compressed) bytes received so far.
func (d *Decoder) OpenMessage() (open bool, typ byte, compressed bool, raw []byte) {
	return d.open, d.opType, d.opComp, d.buf
}

// Dict returns the current inflate dictionary (context takeover).
func (d *Decoder) Dict() []byte { return d.dict }

func (d *Decoder) viol(what string) []Event {
	d.Dead = true
	return []Event{{Kind: EvViolation, What: what, Frame: d.n - 1}}
}

// HeaderViolation checks everything that can be decided from a frame header
// alone, in the state the decoder is in. "" = fine.
func (d *Decoder) HeaderViolation(f Frame) string {
	if f.Rsv2 || f.Rsv3 {
		return "rsv23"
	}
	ctl := IsControl(f.Opcode)
	if f.Rsv1 {
		if !d.Deflate {
			return "rsv1-not-negotiated"
		}
		if ctl {
			return "rsv1-control"
		}
		if f.Opcode == OpCont {
			return "rsv1-continuation"
		}
	}
	switch f.Opcode {
	case OpCont, OpText, OpBinary, OpClose, OpPing, OpPong:
	default:
		return "reserved-opcode"
	}
	if f.Masked != d.ExpectMasked {
		if d.ExpectMasked {
			return "unmasked-client-frame"
		}
		return "masked-server-frame"
	}
	if ctl {
		if f.Len > 125 {
			return "control-too-long"
		}
		if !f.Fin {
			return "control-fragmented"
		}
		return ""
	}
	if f.Opcode == OpCont {
		if !d.open {
			return "continuation-without-message"
		}
	} else if d.open {
		return "new-message-inside-message"
	}
	return ""
}

// Feed processes one complete frame.
func (d *Decoder) Feed(f Frame) []Event {
	if d.Dead {
		return nil
	}
	d.n++
	if v := d.HeaderViolation(f); v != "" {
		return d.viol(v)
	}
	switch f.Opcode {
	case OpPing:
		return []Event{{Kind: EvPing, Payload: f.Payload, Frame: d.n - 1}}
	case OpPong:
		return []Event{{Kind: EvPong, Payload: f.Payload, Frame: d.n - 1}}
	case OpClose:
		if len(f.Payload) == 0 {
			d.Dead = !d.KeepGoingAfterClose
			return []Event{{Kind: EvClose, Code: 1005, Frame: d.n - 1}}
		}
		if len(f.Payload) == 1 {
			return d.viol("close-payload-1-byte")
		}
		code := int(f.Payload[0])<<8 | int(f.Payload[1])
		if !ValidWireCode(code) {
			return d.viol(fmt.Sprintf("close-code-%d", code))
		}
		d.Dead = !d.KeepGoingAfterClose
		return []Event{{Kind: EvClose, Code: code, Reason: string(f.Payload[2:]), Frame: d.n - 1}}
	}
	if f.Opcode != OpCont {
		d.open = true
		d.opType = f.Opcode
		d.opComp = f.Rsv1
		d.opFrames = 0
		d.buf = d.buf[:0]
	}
	d.opFrames++
	d.buf = append(d.buf, f.Payload...)
	if !f.Fin {
		return nil
	}
	d.open = false
	ev := Event{Kind: EvMsg, Type: d.opType, Compressed: d.opComp, Frame: d.n - 1, Frames: d.opFrames}
	if d.opComp {
		var dict []byte
		if d.Takeover {
			dict = d.dict
		}
		out, err := Inflate(d.buf, dict, d.MaxInflate)
		ev.Payload = out
		ev.InflateErr = err
		if d.Takeover {
			d.dict = appendWindow(d.dict, out)
		}
	} else {
		ev.Payload = append([]byte(nil), d.buf...)
	}
	d.buf = d.buf[:0]
	return []Event{ev}
}

func appendWindow(dict, p []byte) []byte {
	const w = 32768
	if len(p) >= w {
		return append([]byte(nil), p[len(p)-w:]...)
	}
	dict = append(dict, p...)
	if len(dict) > w {
		dict = append([]byte(nil), dict[len(dict)-w:]...)
	}
	return dict
}

// Inflate is the RFC 7692 7.2.2 receive transform: append 00 00 ff ff and
// inflate with the given preset dictionary.
func Inflate(payload, dict []byte, max int) ([]byte, error) {
	if max <= 0 {
		max = 64 << 20
	}
	src := make([]byte, 0, len(payload)+4)
	src = append(src, payload...)
	src = append(src, 0x00, 0x00, 0xff, 0xff)
	fr := flate.NewReaderDict(bytes.NewReader(src), dict)
	var out bytes.Buffer
	_, err := io.Copy(&out, io.LimitReader(fr, int64(max)))
	if err == io.ErrUnexpectedEOF || err == io.EOF {
		// the appended tail is an empty stored block without BFINAL: the
		// stream legitimately ends there.
		err = nil
	}
	return out.Bytes(), err
}

// Deflater is the RFC 7692 7.2.1 send transform with the freedoms a sender
// has: keep or reset context, flush inside a message, end with BFINAL.
type Deflater struct {
	Takeover bool
	Level    int
	w        *flate.Writer
	buf      bytes.Buffer
	hist     []byte // last 32 KiB of what was compressed (context takeover)
}

func (d *Deflater) level() int {
	if d.Level == 0 {
		return flate.DefaultCompression
	}
	return d.Level
}

// Compress returns the message payload for one message. flushAt lists
// offsets at which an additional sync flush is inserted; bfinal ends the
// message with a BFINAL=1 block followed by 0x00 (7.2.3.4). Under context
// takeover the LZ77 window survives a BFINAL ending: the next message is
// compressed with the history as preset dictionary, which is exactly what the
// receiver's window holds.
func (d *Deflater) Compress(msg []byte, flushAt []int, bfinal bool) []byte {
	if d.w == nil && d.Takeover && len(d.hist) > 0 {
		// continue after a BFINAL ending with the history as preset dictionary.
		// compress/flate's dictionary writer has been seen to emit a wrong
		// stream for incompressible input of a window or more, so the result is
		// verified and a context reset (always legal for a sender) is the fallback.
		d.buf.Reset()
		histBefore := d.hist
		d.w, _ = flate.NewWriterDict(&d.buf, d.level(), d.hist)
		out := d.compressWith(msg, flushAt, bfinal)
		if back, err := Inflate(out, histBefore, len(msg)+64); err == nil && bytes.Equal(back, msg) {
			return out
		}
		d.w = nil
		d.hist = nil
		d.buf.Reset()
		d.w, _ = flate.NewWriter(&d.buf, d.level())
		return d.compressWith(msg, flushAt, bfinal)
	}
	if d.w == nil || !d.Takeover {
		d.buf.Reset()
		d.w, _ = flate.NewWriter(&d.buf, d.level())
	}
	return d.compressWith(msg, flushAt, bfinal)
}

func (d *Deflater) compressWith(msg []byte, flushAt []int, bfinal bool) []byte {
	d.buf.Reset()
	last := 0
	for _, off := range flushAt {
		if off <= last || off >= len(msg) {
			continue
		}
		d.w.Write(msg[last:off])
		d.w.Flush()
		last = off
	}
	d.w.Write(msg[last:])
	if d.Takeover {
		d.hist = appendWindow(d.hist, msg)
	}
	if bfinal {
		d.w.Close()
		d.w = nil
		out := append([]byte(nil), d.buf.Bytes()...)
		return append(out, 0x00)
	}
	d.w.Flush()
	out := append([]byte(nil), d.buf.Bytes()...)
	if len(out) >= 4 && bytes.Equal(out[len(out)-4:], []byte{0, 0, 0xff, 0xff}) {
		out = out[:len(out)-4]
	}
	return out
}

// ---------------------------------------------------------------------------
// hand-made DEFLATE: a block that starts with a back-reference

var (
	lenBase   = []int{3, 4, 5, 6, 7, 8, 9, 10, 11, 13, 15, 17, 19, 23, 27, 31, 35, 43, 51, 59, 67, 83, 99, 115, 131, 163, 195, 227, 258}
	lenExtra  = []uint{0, 0, 0, 0, 0, 0, 0, 0, 1, 1, 1, 1, 2, 2, 2, 2, 3, 3, 3, 3, 4, 4, 4, 4, 5, 5, 5, 5, 0}
	distBase  = []int{1, 2, 3, 4, 5, 7, 9, 13, 17, 25, 33, 49, 65, 97, 129, 193, 257, 385, 513, 769, 1025, 1537, 2049, 3073, 4097, 6145, 8193, 12289, 16385, 24577}
	distExtra = []uint{0, 0, 0, 0, 1, 1, 2, 2, 3, 3, 4, 4, 5, 5, 6, 6, 7, 7, 8, 8, 9, 9, 10, 10, 11, 11, 12, 12, 13, 13}
)

type bitWriter struct {
	out  []byte
	acc  uint64
	nacc uint
}

// bits appends the low n bits of v, least significant bit first.
func (w *bitWriter) bits(v uint, n uint) {
	w.acc |= uint64(v) << w.nacc
	w.nacc += n
	for w.nacc >= 8 {
		w.out = append(w.out, byte(w.acc))
		w.acc >>= 8
		w.nacc -= 8
	}
}

// code appends an n-bit Huffman code, most significant bit first.
func (w *bitWriter) code(c uint, n uint) {
	for i := int(n) - 1; i >= 0; i-- {
		w.bits((c>>uint(i))&1, 1)
	}
}

func (w *bitWriter) align() {
	if w.nacc > 0 {
		w.bits(0, 8-w.nacc)
	}
}

func (w *bitWriter) fixedSym(sym int) {
	switch {
	case sym <= 143:
		w.code(uint(0x30+sym), 8)
	case sym <= 255:
		w.code(uint(0x190+sym-144), 9)
	case sym <= 279:
		w.code(uint(sym-256), 7)
	default:
		w.code(uint(0xC0+sym-280), 8)
	}
}

// BackrefProbe returns the payload of a compressed message (RFC 7692 form: the
// trailing 00 00 ff ff removed) whose DEFLATE stream begins with lits literal
// bytes followed by one match <length, dist>. A receiver whose history holds fewer
// than dist-lits bytes must fail to inflate it; a receiver whose window was
// polluted by someone else's data would deliver that data instead.
func BackrefProbe(lits []byte, dist, length int) []byte {
	if length < 3 || length > 258 || dist < 1 || dist > 32768 {
		panic("BackrefProbe: out of range")
	}
	w := &bitWriter{}
	w.bits(0, 1) // BFINAL=0
	w.bits(1, 2) // BTYPE=01 fixed Huffman
	for _, b := range lits {
		w.fixedSym(int(b))
	}
	li := len(lenBase) - 1
	for lenBase[li] > length {
		li--
	}
	if length != 258 && li == len(lenBase)-1 {
		li-- // 258 has its own code; 227..257 use code 284
	}
	w.fixedSym(257 + li)
	w.bits(uint(length-lenBase[li]), lenExtra[li])
	di := len(distBase) - 1
	for distBase[di] > dist {
		di--
	}
	w.code(uint(di), 5)
	w.bits(uint(dist-distBase[di]), distExtra[di])
	w.fixedSym(256)
	// the empty stored block of a sync flush, minus its 00 00 ff ff
	w.bits(0, 3)
	w.align()
	return w.out
}
