package wsref

import (
	"math/rand"
	"testing"
)

func TestDbgDictBfinal(t *testing.T) {
	rng := rand.New(rand.NewSource(3))
	for _, n := range []int{32766, 32767, 32768, 40000} {
		d := &Deflater{Takeover: true}
		m1 := []byte{'x'}
		p1 := d.Compress(m1, nil, true)
		o1, err := Inflate(p1, nil, 0)
		if err != nil || string(o1) != "x" {
			t.Fatalf("m1 %v %q", err, o1)
		}
		m2 := make([]byte, n)
		rng.Read(m2)
		p2 := d.Compress(m2, nil, false)
		o2, err := Inflate(p2, m1, 0)
		t.Logf("n=%d wire=%d out=%d err=%v", n, len(p2), len(o2), err)
		if string(o2) != string(m2) {
			t.Errorf("n=%d: inflated %d", n, len(o2))
		}
	}
}
