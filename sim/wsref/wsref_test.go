package wsref

import (
	"bytes"
	"compress/flate"
	"io"
	"fmt"
	"math/rand"
	"testing"
)

func TestDeflateRoundTrip(t *testing.T) {
	rng := rand.New(rand.NewSource(1))
	for _, take := range []bool{false, true} {
		for _, lvl := range []int{-1, 1, 9, -2} {
			d := &Deflater{Takeover: take, Level: lvl}
			var dict []byte
			for i := 0; i < 300; i++ {
				n := rng.Intn(300)
				msg := make([]byte, n)
				for j := range msg {
					msg[j] = 'a' + byte((j+i)%9)
				}
				var fl []int
				if n > 2 && rng.Intn(3) == 0 {
					fl = []int{1 + rng.Intn(n-1)}
				}
				bf := rng.Intn(8) == 0
				pl := d.Compress(msg, fl, bf)
				var dd []byte
				if take {
					dd = dict
				}
				out, err := Inflate(pl, dd, 0)
				if err != nil || !bytes.Equal(out, msg) {
					t.Fatalf("take=%v lvl=%d i=%d n=%d fl=%v bf=%v: err=%v out=%q msg=%q pl=%x", take, lvl, i, n, fl, bf, err, out, msg, pl)
				}
				if take {
					dict = appendWindow(dict, msg)
				}
			}
		}
	}
	fmt.Println("ok")
}

func TestBackrefProbe(t *testing.T) {
	dict := make([]byte, 32768)
	for i := range dict {
		dict[i] = byte(i*7 + i/251)
	}
	for _, c := range []struct{ lits, dist, length int }{{0, 1, 3}, {0, 32768, 258}, {0, 300, 257}, {0, 5, 227}, {0, 24577, 10}, {0, 4096, 130}, {3, 100, 66}, {0, 7, 40}, {0, 12288, 11}, {2, 2, 258}} {
		lits := []byte("xyz")[:c.lits]
		p := BackrefProbe(lits, c.dist, c.length)
		stream := append(append([]byte{}, p...), 0, 0, 0xff, 0xff, 1, 0, 0, 0xff, 0xff)
		got, err := io.ReadAll(flate.NewReaderDict(bytes.NewReader(stream), dict))
		if err != nil {
			t.Fatalf("%+v: with history: %v", c, err)
		}
		hist := append(append([]byte{}, dict...), lits...)
		want := append([]byte{}, lits...)
		for i := 0; i < c.length; i++ {
			hist = append(hist, hist[len(hist)-c.dist])
			want = append(want, hist[len(hist)-1])
		}
		if !bytes.Equal(got, want) {
			t.Fatalf("%+v: got %x want %x", c, got, want)
		}
		if c.dist > c.lits {
			_, err = io.ReadAll(flate.NewReader(bytes.NewReader(stream)))
			if err == nil {
				t.Fatalf("%+v: inflated without history", c)
			}
		}
	}
}
