package wsref

import (
	"bytes"
	"fmt"
	"math/rand"
	"testing"
)

func TestDeflateRoundTrip(t *testing.T) {
	rng := rand.New(rand.NewSource(1))
	for _, take := range []bool{false, true} {
		for _, lvl := range []int{-1, 1, 9, -2} {
			d := &Deflater{Takeover: take, Level: lvl}
			var dict []byte
			for i := 0; i < 300; i++ {
				n := rng.Intn(300)
				msg := make([]byte, n)
				for j := range msg {
					msg[j] = 'a' + byte((j+i)%9)
				}
				var fl []int
				if n > 2 && rng.Intn(3) == 0 {
					fl = []int{1 + rng.Intn(n-1)}
				}
				bf := rng.Intn(8) == 0
				pl := d.Compress(msg, fl, bf)
				var dd []byte
				if take {
					dd = dict
				}
				out, err := Inflate(pl, dd, 0)
				if err != nil || !bytes.Equal(out, msg) {
					t.Fatalf("take=%v lvl=%d i=%d n=%d fl=%v bf=%v: err=%v out=%q msg=%q pl=%x", take, lvl, i, n, fl, bf, err, out, msg, pl)
				}
				if take {
					dict = appendWindow(dict, msg)
				}
			}
		}
	}
	fmt.Println("ok")
}
