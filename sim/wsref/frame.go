// Package wsref is a reference implementation of RFC 6455 framing, the
// message layer and RFC 7692 permessage-deflate, written from the RFCs and
// sharing no code with the library under test (it does not import it).
package wsref

import (
	"encoding/binary"
	"errors"
)

// Opcodes.
const (
	OpCont   = 0x0
	OpText   = 0x1
	OpBinary = 0x2
	OpClose  = 0x8
	OpPing   = 0x9
	OpPong   = 0xA
)

// Frame is one RFC 6455 frame.
type Frame struct {
	Fin, Rsv1, Rsv2, Rsv3 bool
	Opcode                byte
	Masked                bool
	Key                   [4]byte
	Len                   uint64 // declared payload length
	LenEnc                int    // 0 = 7-bit, 1 = 16-bit, 2 = 64-bit
	Payload               []byte // unmasked payload
	Start, HdrEnd, End    int    // offsets in the parsed stream
	// serialiser only:
	ForceEnc   int    // 0 = minimal, 1 = force 16-bit, 2 = force 64-bit
	DeclareLen uint64 // if non-zero, declare this length instead of len(Payload)
}

// IsControl reports whether the opcode is a control opcode.
func IsControl(op byte) bool { return op&0x8 != 0 }

// MinimalEnc is the minimal length encoding class for n.
func MinimalEnc(n uint64) int {
	switch {
	case n <= 125:
		return 0
	case n <= 65535:
		return 1
	}
	return 2
}

// AppendFrame serialises f (masking the payload with f.Key if f.Masked).
func AppendFrame(dst []byte, f Frame) []byte {
	b0 := f.Opcode & 0x0f
	if f.Fin {
		b0 |= 0x80
	}
	if f.Rsv1 {
		b0 |= 0x40
	}
	if f.Rsv2 {
		b0 |= 0x20
	}
	if f.Rsv3 {
		b0 |= 0x10
	}
	dst = append(dst, b0)
	n := uint64(len(f.Payload))
	if f.DeclareLen != 0 {
		n = f.DeclareLen
	}
	enc := MinimalEnc(n)
	if f.ForceEnc > enc {
		enc = f.ForceEnc
	}
	var b1 byte
	if f.Masked {
		b1 = 0x80
	}
	switch enc {
	case 0:
		dst = append(dst, b1|byte(n))
	case 1:
		dst = append(dst, b1|126, byte(n>>8), byte(n))
	default:
		var l [8]byte
		binary.BigEndian.PutUint64(l[:], n)
		dst = append(dst, b1|127)
		dst = append(dst, l[:]...)
	}
	if f.Masked {
		dst = append(dst, f.Key[:]...)
		for i, c := range f.Payload {
			dst = append(dst, c^f.Key[i%4])
		}
	} else {
		dst = append(dst, f.Payload...)
	}
	return dst
}

// ErrTopBit is returned for a 64-bit length with the most significant bit set.
var ErrTopBit = errors.New("64-bit payload length with the top bit set")

// ParseFrame parses one frame at offset off. ok=false means the stream ends
// before the frame is complete; hdrOK tells whether at least the header was
// complete (then f holds the header fields and f.Payload the partial,
// unmasked payload).
func ParseFrame(s []byte, off int) (f Frame, ok, hdrOK bool, err error) {
	p := off
	if len(s)-p < 2 {
		return f, false, false, nil
	}
	f.Start = off
	b0, b1 := s[p], s[p+1]
	p += 2
	f.Fin = b0&0x80 != 0
	f.Rsv1 = b0&0x40 != 0
	f.Rsv2 = b0&0x20 != 0
	f.Rsv3 = b0&0x10 != 0
	f.Opcode = b0 & 0x0f
	f.Masked = b1&0x80 != 0
	l := uint64(b1 & 0x7f)
	switch l {
	case 126:
		if len(s)-p < 2 {
			return f, false, false, nil
		}
		l = uint64(s[p])<<8 | uint64(s[p+1])
		p += 2
		f.LenEnc = 1
	case 127:
		if len(s)-p < 8 {
			return f, false, false, nil
		}
		l = binary.BigEndian.Uint64(s[p:])
		p += 8
		f.LenEnc = 2
		if l>>63 != 0 {
			f.Len = l
			return f, false, true, ErrTopBit
		}
	}
	f.Len = l
	if f.Masked {
		if len(s)-p < 4 {
			return f, false, false, nil
		}
		copy(f.Key[:], s[p:p+4])
		p += 4
	}
	f.HdrEnd = p
	have := uint64(len(s) - p)
	n := l
	complete := true
	if have < l {
		n = have
		complete = false
	}
	pl := make([]byte, n)
	copy(pl, s[p:p+int(n)])
	if f.Masked {
		for i := range pl {
			pl[i] ^= f.Key[i%4]
		}
	}
	f.Payload = pl
	f.End = p + int(n)
	return f, complete, true, nil
}

// ParseAll parses as many complete frames as the stream holds. rest is the
// offset of the first byte not part of a complete frame; partial, if non-nil,
// is the incomplete frame starting there (header complete).
func ParseAll(s []byte) (frames []Frame, rest int, partial *Frame, err error) {
	off := 0
	for off < len(s) {
		f, ok, hdr, e := ParseFrame(s, off)
		if e != nil {
			return frames, off, &f, e
		}
		if !ok {
			if hdr {
				return frames, off, &f, nil
			}
			return frames, off, nil, nil
		}
		frames = append(frames, f)
		off = f.End
	}
	return frames, off, nil, nil
}

// ValidWireCode: status codes that may appear in a Close frame on the wire
// (RFC 6455 7.4 + IANA registry): 1000-1003, 1007-1014, 3000-4999.
func ValidWireCode(c int) bool {
	switch {
	case c >= 1000 && c <= 1003:
		return true
	case c >= 1007 && c <= 1014:
		return true
	case c >= 3000 && c <= 4999:
		return true
	}
	return false
}

// ClosePayload builds a Close frame payload.
func ClosePayload(code int, reason string) []byte {
	return append([]byte{byte(code >> 8), byte(code)}, reason...)
}
