package verifsim

// Entry points run by the orchestrator (/verif/check). One OS process = one
// worker; GOMAXPROCS is pinned to 1 because the scheduler's determinism
// depends on it (see DESIGN.md 3.1).

import (
	"encoding/json"
	"fmt"
	"os"
	"runtime"
	"strconv"
	"strings"
	"testing"
	"time"

	"verifsim/props"
	"verifsim/simrt"
)

type violRec struct {
	Index   int               `json:"index"`
	Seed    uint64            `json:"seed"`
	Forced  []uint32          `json:"forced,omitempty"`
	Tape    []uint32          `json:"tape"`
	Viol    []props.Violation `json:"viol"`
	Hash    string            `json:"hash"`
	Desc    map[string]any    `json:"desc,omitempty"`
	Aborted string            `json:"aborted,omitempty"`
}

type summary struct {
	Prop        string           `json:"prop"`
	Tier        string           `json:"tier"`
	Seed        uint64           `json:"seed"`
	Shard       string           `json:"shard"`
	Evaluations int              `json:"evaluations"`
	Enumerated  int              `json:"enumerated"`
	EnumTotal   int              `json:"enum_total"`
	Nontrivial  int              `json:"nontrivial"`
	Hashes      []string         `json:"hashes"`
	Classes     map[string]int   `json:"classes"`
	Stats       map[string]int   `json:"stats"`
	Steps       int64            `json:"steps"`
	SimUS       int64            `json:"sim_us"`
	Aborted     map[string]int   `json:"aborted"`
	Violations  []violRec        `json:"violations"`
	Samples     []map[string]any `json:"samples"`
	WallS       float64          `json:"wall_s"`
	Build       string           `json:"build"`
}

func envInt(k string, def int) int {
	if v := os.Getenv(k); v != "" {
		n, err := strconv.Atoi(v)
		if err == nil {
			return n
		}
	}
	return def
}

func TestSim(t *testing.T) {
	runtime.GOMAXPROCS(1)
	mode := os.Getenv("SIM_MODE")
	if mode == "" {
		t.Skip("SIM_MODE not set; run through /verif/check")
	}
	p := props.Registry[os.Getenv("SIM_PROP")]
	if p == nil {
		fmt.Fprintf(os.Stderr, "unknown property %q\n", os.Getenv("SIM_PROP"))
		os.Exit(2)
	}
	switch mode {
	case "gen":
		genMode(t, p)
	case "replay":
		replayMode(t, p)
	case "shrink":
		shrinkMode(t, p)
	default:
		fmt.Fprintf(os.Stderr, "unknown SIM_MODE %q\n", mode)
		os.Exit(2)
	}
}

func writeJSON(path string, v any) {
	b, err := json.Marshal(v)
	if err != nil {
		fmt.Fprintln(os.Stderr, "marshal:", err)
		os.Exit(2)
	}
	if err := os.WriteFile(path, b, 0o644); err != nil {
		fmt.Fprintln(os.Stderr, "write:", err)
		os.Exit(2)
	}
}

func genMode(t *testing.T, p *props.Prop) {
	tier := os.Getenv("SIM_TIER")
	if tier == "" {
		tier = "quick"
	}
	seed, _ := strconv.ParseUint(os.Getenv("SIM_SEED"), 10, 64)
	shardK, shardN := 0, 1
	if sh := os.Getenv("SIM_SHARD"); sh != "" {
		fmt.Sscanf(sh, "%d/%d", &shardK, &shardN)
	}
	out := os.Getenv("SIM_OUT")
	progress := out + ".progress"
	nRandom := p.Quick
	if tier == "thorough" {
		nRandom = p.Thorough
	}
	if v := envInt("SIM_RUNS", -1); v >= 0 {
		nRandom = v
	}
	wallCap := time.Duration(envInt("SIM_WALL", 3600)) * time.Second
	var enum [][]uint32
	if p.Enum != nil && os.Getenv("SIM_NOENUM") == "" {
		enum = p.Enum(tier)
	}
	sum := summary{Prop: p.ID, Tier: tier, Seed: seed, Shard: fmt.Sprintf("%d/%d", shardK, shardN),
		Classes: map[string]int{}, Stats: map[string]int{}, Aborted: map[string]int{}, EnumTotal: len(enum), Build: os.Getenv("SIM_BUILD")}
	start := time.Now()
	total := len(enum) + nRandom
	maxViol := envInt("SIM_MAXVIOL", 40)
	sigSeen := map[string]int{}
	upto := envInt("SIM_UPTO", -1) // replay of a worker's history: stop after this index
	for i := shardK; i < total; i += shardN {
		if upto >= 0 && i > upto {
			break
		}
		if time.Since(start) > wallCap {
			sum.Aborted["wall-cap"]++
			break
		}
		var forced []uint32
		if i < len(enum) {
			forced = enum[i]
		}
		rs := simrt.Mix(seed, p.ID, uint64(i))
		os.WriteFile(progress, []byte(fmt.Sprintf("%d %d", i, rs)), 0o644)
		if sum.Build == "race" {
			// lets the orchestrator attribute race reports to a run
			fmt.Fprintf(os.Stderr, "@@RUN %d %d\n", i, rs)
		}
		tape := simrt.NewTape(rs, forced)
		hb := []byte(fmt.Sprintf("%d %d", i, rs))
		simrt.Heartbeat = func() {
			// (rewritten rather than touched: inside the bubble time.Now is the fake
			// clock, the kernel stamps the file with the real one)
			os.WriteFile(progress, hb, 0o644)
		}
		dump := os.Getenv("SIM_DUMPTRACE") != ""
		res := props.Execute(t, p, tape, tier, dump)
		if dump {
			os.WriteFile(fmt.Sprintf("%s.trace.%d", out, i), []byte(strings.Join(res.Trace, "\n")+"\n"), 0o644)
		}
		sum.Evaluations++
		if i < len(enum) {
			sum.Enumerated++
		}
		sum.Steps += int64(res.Steps)
		sum.SimUS += res.SimUS
		for k, v := range res.Stats {
			sum.Stats[k] += v
		}
		if res.Aborted != "" {
			sum.Aborted[res.Aborted]++
		}
		sum.Classes[res.Class]++
		if res.Nontrivial {
			sum.Nontrivial++
		}
		if res.Nontrivial || os.Getenv("SIM_ALLHASH") != "" {
			sum.Hashes = append(sum.Hashes, res.Hash[:16])
		}
		if len(sum.Samples) < 3 && res.Nontrivial && len(res.Desc) > 0 {
			d := res.Desc
			d["_index"] = i
			d["_seed"] = rs
			d["_steps"] = res.Steps
			sum.Samples = append(sum.Samples, d)
		}
		if len(res.Viol) > 0 {
			key := res.Viol[0].Oracle + "|" + res.Viol[0].Sig
			sigSeen[key]++
			if sigSeen[key] <= 3 && len(sum.Violations) < maxViol {
				sum.Violations = append(sum.Violations, violRec{Index: i, Seed: rs, Forced: forced, Tape: res.Tape, Viol: res.Viol, Hash: res.Hash, Desc: res.Desc, Aborted: res.Aborted})
			}
			sum.Stats["viol."+key]++
		}
	}
	sum.WallS = time.Since(start).Seconds()
	os.Remove(progress)
	writeJSON(out, sum)
}

type replayFile struct {
	Property string   `json:"property"`
	Build    string   `json:"build"`
	Tier     string   `json:"tier"`
	Tape     []uint32 `json:"tape"`
	Oracle   string   `json:"oracle"`
	Sig      string   `json:"signature"`
	LogSHA   string   `json:"log_sha256"`
}

func loadReplay() replayFile {
	var rf replayFile
	b, err := os.ReadFile(os.Getenv("SIM_TAPE"))
	if err != nil {
		fmt.Fprintln(os.Stderr, "read tape:", err)
		os.Exit(2)
	}
	if err := json.Unmarshal(b, &rf); err != nil {
		fmt.Fprintln(os.Stderr, "parse tape:", err)
		os.Exit(2)
	}
	return rf
}

func replayMode(t *testing.T, p *props.Prop) {
	rf := loadReplay()
	tier := rf.Tier
	if tier == "" {
		tier = "quick"
	}
	res := props.Execute(t, p, simrt.ReplayTape(rf.Tape), tier, os.Getenv("SIM_TRACE") != "")
	writeJSON(os.Getenv("SIM_OUT"), res)
}

func matches(res props.Result, oracle, sig string) bool {
	for _, v := range res.Viol {
		if v.Oracle == oracle && (sig == "" || v.Sig == sig) {
			return true
		}
	}
	return false
}

// shrinkMode minimises a failing tape while the same (oracle, signature)
// violation persists: truncate, delete chunks, zero chunks, lower values.
func shrinkMode(t *testing.T, p *props.Prop) {
	rf := loadReplay()
	tier := rf.Tier
	if tier == "" {
		tier = "quick"
	}
	budget := envInt("SIM_SHRINK_RUNS", 400)
	deadline := time.Now().Add(time.Duration(envInt("SIM_SHRINK_WALL", 60)) * time.Second)
	runs := 0
	try := func(tp []uint32) (props.Result, bool) {
		runs++
		res := props.Execute(t, p, simrt.ReplayTape(tp), tier, false)
		return res, matches(res, rf.Oracle, rf.Sig)
	}
	best := append([]uint32(nil), rf.Tape...)
	res, ok := try(best)
	if !ok {
		writeJSON(os.Getenv("SIM_OUT"), map[string]any{"ok": false, "reason": "original tape does not reproduce", "viol": res.Viol})
		return
	}
	best = trimTape(res.Tape)
	exhausted := func() bool { return runs >= budget || time.Now().After(deadline) }
	improved := true
	for improved && !exhausted() {
		improved = false
		// 1. truncate the tail (binary search on length)
		lo, hi := 0, len(best)
		for lo < hi && !exhausted() {
			mid := (lo + hi) / 2
			if r2, ok := try(best[:mid]); ok {
				best = trimTape(r2.Tape)
				if len(best) > mid {
					best = best[:mid]
				}
				hi = len(best)
				if hi > mid {
					hi = mid
				}
				improved = true
			} else {
				lo = mid + 1
			}
		}
		// 2. delete chunks, 3. zero chunks
		for size := len(best) / 2; size >= 1 && !exhausted(); size /= 2 {
			for off := 0; off+size <= len(best) && !exhausted(); {
				cand := append(append([]uint32(nil), best[:off]...), best[off+size:]...)
				if _, ok := try(cand); ok {
					best = cand
					improved = true
					continue
				}
				allZero := true
				for _, w := range best[off : off+size] {
					if w != 0 {
						allZero = false
						break
					}
				}
				if !allZero {
					cand = append([]uint32(nil), best...)
					for i := off; i < off+size; i++ {
						cand[i] = 0
					}
					if _, ok := try(cand); ok {
						best = cand
						improved = true
					}
				}
				off += size
			}
		}
		// 4. lower single values
		for i := 0; i < len(best) && !exhausted(); i++ {
			if best[i] == 0 {
				continue
			}
			for _, v := range []uint32{0, 1, best[i] / 2, best[i] % 256, best[i] % 16} {
				if v >= best[i] {
					continue
				}
				cand := append([]uint32(nil), best...)
				cand[i] = v
				if _, ok := try(cand); ok {
					best = cand
					improved = true
					break
				}
			}
		}
	}
	final := props.Execute(t, p, simrt.ReplayTape(best), tier, true)
	writeJSON(os.Getenv("SIM_OUT"), map[string]any{"ok": matches(final, rf.Oracle, rf.Sig), "tape": best, "runs": runs, "result": final})
}

func trimTape(tp []uint32) []uint32 {
	n := len(tp)
	for n > 0 && tp[n-1] == 0 {
		n--
	}
	return append([]uint32(nil), tp[:n]...)
}

var _ = strings.TrimSpace
