module verifsim

go 1.26.8

require nhooyr.io/websocket v0.0.0

replace nhooyr.io/websocket => /repo
