package props

import (
	"bytes"
	"context"
	"fmt"
	"io"
	"time"

	"nhooyr.io/websocket"

	"verifsim/wsref"
)

// C10 — a context bounds only its own call; after success its cancellation
// is harmless.

func init() {
	register(&Prop{ID: "C10", Run: runC10, Quick: 15000, Thorough: 1000000, Level: "exploration"})
}

var c10Ops = []string{"Read", "Reader", "Write", "Writer", "Ping"}
var c10Cancel = []string{"after-immediately", "after-delayed", "timeout-later", "never", "during", "before"}

func runC10(r *Run) {
	t := r.Tape
	rc, err := r.drawRawConn("c0", 0)
	if err != nil {
		r.Violate("handshake-failed", "raw", "handshake failed: %v", err)
		return
	}
	c, peer := rc.C, rc.Peer
	pingFlavour := t.Draw(3) == 2 // CloseRead active, ops: Ping/Write/Writer
	nOps := 3 + t.Draw(12)
	terminal := t.Weighted(5, 3, 1) // 0 final round trip, 1 'during', 2 'before'
	r.DrawYields()
	r.S.Stick = []int{0, 60}[t.Draw(2)]
	r.S.MaxSteps = 40000
	r.S.MaxSim = 10 * time.Minute
	rc.Lib.In().RChunk = t.Weighted(4, 1, 2, 2, 2)
	rc.Lib.Out().WChunk = t.Weighted(4, 1, 2, 2, 2)
	bg := context.Background()
	c.SetReadLimit(-1)

	type opPlan struct {
		kind   int
		cancel int
		delay  time.Duration
		sleep  time.Duration
		size   int
		frags  []int
		pings  int
		seed   uint32
	}
	var plan []opPlan
	for i := 0; i < nOps; i++ {
		var p opPlan
		if pingFlavour {
			p.kind = []int{4, 2, 3}[t.Draw(3)]
		} else {
			p.kind = t.Draw(4)
		}
		p.cancel = t.Draw(4)
		p.delay = []time.Duration{time.Millisecond, 100 * time.Millisecond, 2 * time.Second, 7 * time.Second, 40 * time.Second}[t.Draw(5)]
		p.sleep = []time.Duration{0, 0, time.Millisecond, time.Second, 6 * time.Second, 20 * time.Second}[t.Draw(6)]
		p.size = DrawSize(t, 20000, 125, 4096)
		p.frags = SplitFrags(t, p.size)
		p.pings = t.Draw(3)
		p.seed = t.U32()
		plan = append(plan, p)
	}
	termKind := 0
	if pingFlavour {
		termKind = []int{4, 2, 3}[t.Draw(3)]
	} else {
		termKind = []int{0, 2, 1, 3}[t.Draw(4)]
	}
	termDelay := []time.Duration{time.Millisecond, time.Second, 8 * time.Second}[t.Draw(3)]
	termByCancel := t.Draw(2) == 1 // cancel() from a timer instead of a deadline
	// a second frame writer inside writeFrame while the cancelled Write is
	// blocked: 0 none, 1 a peer ping whose pong queues behind the blocked
	// Write, 2 the Write queues behind a Ping that is blocked in the transport
	conc := t.Weighted(2, 1, 1)
	// what a cancelled read is blocked in: 0 nothing arrives, 1 only the first
	// fragment, 2 a data frame with part of its payload, 3 a ping with part of its
	// payload, 4 writing the pong for a ping (the peer does not read), 5 waiting
	// for the frame lock to write that pong (a Write is blocked in the transport)
	rconc := t.Weighted(1, 1, 1, 2, 2, 2, 2, 1, 2)

	sig := fmt.Sprintf("flavour=%v,terminal=%d", pingFlavour, terminal)
	r.Class = fmt.Sprintf("%s/cli%v/d%v/n%d", sig, rc.Opts.LibClient, rc.Neg.Deflate, nOps/4)
	r.D("role_lib_client", rc.Opts.LibClient)
	r.D("ext", rc.Opts.Ext)
	r.D("ping_flavour", pingFlavour)
	r.D("terminal", []string{"round-trip", "cancel-during-" + c10Ops[termKind], "cancel-before-" + c10Ops[termKind]}[terminal])
	var pd []string
	for _, p := range plan {
		pd = append(pd, fmt.Sprintf("%s/%s/d=%v/sleep=%v/len%d/f%d/p%d", c10Ops[p.kind], c10Cancel[p.cancel], p.delay, p.sleep, p.size, len(p.frags), p.pings))
	}
	r.D("plan", pd)
	r.Nontrivial = true

	var comp *wsref.Deflater
	if rc.Neg.Deflate {
		comp = &wsref.Deflater{Takeover: rc.PeerTake}
	}
	withholdPong := false
	paused := false
	if pingFlavour {
		c.CloseRead(bg)
	}
	// the peer: records what the library sends, answers pings
	progDone := false
	r.S.Go("peer-rd", func() {
		seen := 0
		peer.Hold = func() bool { return paused && !progDone }
		for {
			f := peer.Next(&seen)
			if f == nil {
				return
			}
			if f.Opcode == wsref.OpPing && !withholdPong {
				peer.Send(wsref.Frame{Fin: true, Opcode: wsref.OpPong, Payload: f.Payload})
			}
		}
	})
	lastCancelled := "none"
	mkCtx := func(i int, p opPlan) (context.Context, func()) {
		name := fmt.Sprintf("op%d/%s/%s", i, c10Ops[p.kind], c10Cancel[p.cancel])
		switch p.cancel {
		case 2: // a timeout that fires later, after the call has returned
			ctx, cancel := context.WithTimeout(bg, p.delay+time.Hour*0)
			time.AfterFunc(p.delay, func() { lastCancelled = name })
			_ = cancel
			return ctx, func() {}
		case 1:
			ctx, cancel := context.WithCancel(bg)
			return ctx, func() {
				time.AfterFunc(p.delay, func() { lastCancelled = name; cancel() })
			}
		case 0:
			ctx, cancel := context.WithCancel(bg)
			return ctx, func() { lastCancelled = name; cancel() }
		}
		ctx, cancel := context.WithCancel(bg)
		_ = cancel
		return ctx, func() {}
	}
	sentMsgs := 0
	// doOp performs one call that is expected to succeed.
	doOp := func(i int, p opPlan, ctx context.Context) error {
		data := Payload{Kind: int(p.seed % 4), Len: p.size, Seed: p.seed}.Bytes()
		switch p.kind {
		case 0, 1: // the peer sends a (fragmented) message with pings in between
			spec := MsgSpec{Typ: wsref.OpBinary, Data: data, Frags: p.frags, Compress: comp != nil && p.seed%2 == 0}
			fs := MessageFrames(spec, comp)
			var out []wsref.Frame
			np := p.pings
			for j, f := range fs {
				out = append(out, f)
				if np > 0 && j < len(fs)-1 {
					out = append(out, wsref.Frame{Fin: true, Opcode: wsref.OpPing, Payload: []byte("mid")})
					np--
				}
			}
			peer.Inject(peer.Encode(out...))
			var got []byte
			var err error
			if p.kind == 0 {
				_, got, err = c.Read(ctx)
			} else {
				var rd io.Reader
				_, rd, err = c.Reader(ctx)
				if err == nil {
					buf := make([]byte, 1+int(p.seed%5000))
					refused := false
					for {
						n, e := rd.Read(buf)
						got = append(got, buf[:n]...)
						if e == nil && !refused && p.seed%3 == 1 && !spec.Compress && len(p.frags) >= 2 && len(got) < p.frags[0] {
							// (only while the first, non-final fragment is being read: from the final
							// frame on the library cannot tell that the message is still open)
							// a second Reader call while this message is still open is refused;
							// its context is cancelled afterwards. That call is over: its
							// context must not bound the reads of the open message.
							refused = true
							rctx, rcancel := context.WithCancel(bg)
							if _, _, re := c.Reader(rctx); re == nil {
								return fmt.Errorf("a second Reader was handed out while a message was open")
							}
							rcancel()
							lastCancelled = fmt.Sprintf("op%d/refused-Reader", i)
							r.S.Count("probe.refused-reader-context-cancelled-mid-message")
						}
						if e == io.EOF {
							break
						}
						if e != nil {
							err = e
							break
						}
					}
				}
			}
			if err == nil && !bytes.Equal(got, data) {
				return fmt.Errorf("message differs (got %d bytes, sent %d)", len(got), len(data))
			}
			return err
		case 2:
			sentMsgs++
			return c.Write(ctx, websocket.MessageBinary, data)
		case 3:
			sentMsgs++
			w, err := c.Writer(ctx, websocket.MessageBinary)
			if err != nil {
				return err
			}
			h := len(data) / 2
			if _, err = w.Write(data[:h]); err != nil {
				return err
			}
			r.S.Park("a.prog.chunk")
			if p.seed%3 == 0 && !(p.cancel == 2 && p.delay <= 1500*time.Millisecond) {
				// (not when this message's own context would run out while the intruders
				// wait: the rest of the message would start with an expired context, and which
				// ready case mu.lock's select takes then is the runtime's choice)
				// another caller tries to write meanwhile with a short context of its
				// own: it has to wait for this message to finish and gives up; its
				// context bounds only that call, not the message in progress
				ictx, icancel := context.WithTimeout(bg, []time.Duration{200 * time.Millisecond, time.Second}[p.seed%2])
				idone := false
				r.S.Go(fmt.Sprintf("intruder%d", i), func() {
					_ = c.Write(ictx, websocket.MessageBinary, []byte("intruder"))
					idone = true
				})
				r.S.ParkE("a.prog.intruder", func() bool { return idone }, nil)
				icancel()
				// ... and a second one after the first has given up: the message is
				// still open, so this call has to wait and give up as well
				ictx2, icancel2 := context.WithTimeout(bg, 300*time.Millisecond)
				idone2 := false
				var ierr2 error
				r.S.Go(fmt.Sprintf("intruder%db", i), func() {
					ierr2 = c.Write(ictx2, websocket.MessageBinary, []byte("second intruder"))
					idone2 = true
				})
				r.S.ParkE("a.prog.intruder2", func() bool { return idone2 }, nil)
				icancel2()
				if ierr2 == nil {
					r.Violate("write-inside-open-writer", sig, "op %d: a Write returned nil while another goroutine's streaming Writer had its message open (after an earlier Write had given up waiting for it)", i)
				}
				r.S.Count("probe.write-attempt-during-open-writer")
			}
			if _, err = w.Write(data[h:]); err != nil {
				return err
			}
			return w.Close()
		default:
			return c.Ping(ctx)
		}
	}
	r.S.Go("prog", func() {
		defer func() {
			progDone = true
			c.CloseNow()
			r.S.Kick()
		}()
		for i, p := range plan {
			r.S.Park("a.prog")
			ctx, after := mkCtx(i, p)
			start := r.S.Now()
			err := doOp(i, p, ctx)
			if p.cancel == 2 && r.S.Now()-start >= p.delay {
				// cannot happen without injected delays; the timeout would be "during"
				return
			}
			if err != nil {
				r.Violate("call-failed-after-harmless-cancel", sig+",op="+c10Ops[p.kind], "op %d (%s) failed: %v; last context cancelled: %s", i, c10Ops[p.kind], err, lastCancelled)
				return
			}
			after()
			if rc.Lib.Closed() {
				r.Violate("connection-closed-by-harmless-cancel", sig+",op="+c10Ops[p.kind], "transport closed after op %d (%s); last context cancelled: %s", i, c10Ops[p.kind], lastCancelled)
				return
			}
			if p.sleep > 0 {
				r.S.Sleep(p.sleep)
				if rc.Lib.Closed() {
					r.Violate("connection-closed-by-harmless-cancel", sig+",op="+c10Ops[p.kind], "transport closed while idle after op %d (%s); last context cancelled: %s", i, c10Ops[p.kind], lastCancelled)
					return
				}
			}
		}
		switch terminal {
		case 0:
			// let every pending cancellation fire, then a full round trip
			r.S.Sleep(45 * time.Second)
			if rc.Lib.Closed() {
				r.Violate("connection-closed-by-harmless-cancel", sig, "transport closed after all contexts ended; last context cancelled: %s", lastCancelled)
				return
			}
			final := opPlan{kind: 2, size: 300, seed: 77}
			if pingFlavour {
				final.kind = 4
			}
			if err := doOp(-1, final, bg); err != nil {
				r.Violate("call-failed-after-harmless-cancel", sig+",final", "final %s failed: %v; last context cancelled: %s", c10Ops[final.kind], err, lastCancelled)
				return
			}
			if !pingFlavour {
				final.kind = 0
				final.frags = []int{100, 200}
				if err := doOp(-1, final, bg); err != nil {
					r.Violate("call-failed-after-harmless-cancel", sig+",final", "final Read failed: %v; last context cancelled: %s", err, lastCancelled)
				}
			}
		case 1: // cancelled while blocked
			p := opPlan{kind: termKind, size: 30000, seed: 5}
			_ = p
			var ctx context.Context
			var cancel context.CancelFunc
			if termByCancel {
				ctx, cancel = context.WithCancel(bg)
				time.AfterFunc(termDelay, cancel)
			} else {
				ctx, cancel = context.WithTimeout(bg, termDelay)
			}
			defer cancel()
			inIO := false
			time.AfterFunc(termDelay-time.Microsecond, func() {
				inIO = rc.Lib.InRead() && (termKind == 0 || termKind == 1) || rc.Lib.InWrite() && (termKind == 2 || termKind == 3)
				if conc == 2 && termKind >= 2 {
					inIO = false // the cancelled Write waits for a lock; the Ping is the one in I/O
				}
				if termKind <= 1 && rconc == 4 {
					inIO = rc.Lib.InWrite() // the read is blocked writing its pong
				}
				if termKind <= 1 && rconc == 5 {
					inIO = false // the read waits for the frame lock
				}
			})
			var err error
			start := r.S.Now()
			switch termKind {
			case 0, 1:
				// nothing arrives, or only the first fragment, or a frame header
				// with a proper prefix of its payload
				switch rconc {
				case 1:
					peer.Inject(peer.Encode(wsref.Frame{Fin: false, Opcode: wsref.OpBinary, Payload: []byte("first fragment only")}))
				case 2:
					b := peer.Encode(wsref.Frame{Fin: true, Opcode: wsref.OpBinary, Payload: Payload{Kind: 2, Len: 300, Seed: 8}.Bytes()})
					peer.Inject(b[:len(b)-100])
				case 3:
					b := peer.Encode(wsref.Frame{Fin: true, Opcode: wsref.OpPing, Payload: []byte("stalled ping payload")})
					peer.Inject(b[:len(b)-1-int(termDelay/time.Second)%7])
				case 6:
					// a complete control frame arrives and is dealt with (the ping gets its
					// pong), then nothing more: the read waits for the next frame when its
					// context ends
					peer.Inject(peer.Encode(wsref.Frame{Fin: true, Opcode: wsref.OpPing, Payload: []byte("handled, then silence")}))
				case 7:
					// the same inside a fragmented message, with an unsolicited pong
					peer.Inject(peer.Encode(wsref.Frame{Fin: false, Opcode: wsref.OpBinary, Payload: []byte("first fragment")},
						wsref.Frame{Fin: true, Opcode: wsref.OpPong, Payload: []byte("nobody asked")},
						wsref.Frame{Fin: true, Opcode: wsref.OpPing, Payload: []byte("ping between fragments")}))
				case 8:
					// the read waits in the transport (for a first byte, or inside a frame)
					// while the write side is stalled: another goroutine's message sits
					// in a full pipe that the peer does not drain. Ending the read's
					// context must not wait for anything that has to be written first.
					r.S.ParkE("a.prog.drain", func() bool { return rc.Lib.Out().Buffered() == 0 }, nil)
					paused = true
					rc.Lib.Out().Cap = 512
					rc.Lib.Out().HardCap = true
					r.S.Go("bgwriter", func() { c.Write(bg, websocket.MessageBinary, Payload{Kind: 2, Len: 40000, Seed: 4}.Bytes()) })
					r.S.ParkE("a.prog.waitwriter", func() bool { return rc.Lib.InWriteLocked() }, nil)
					if int(termDelay/time.Millisecond)%2 == 1 {
						b := peer.Encode(wsref.Frame{Fin: true, Opcode: wsref.OpBinary, Payload: Payload{Kind: 2, Len: 300, Seed: 8}.Bytes()})
						peer.Inject(b[:len(b)-100])
					}
				case 4, 5:
					r.S.ParkE("a.prog.drain", func() bool { return rc.Lib.Out().Buffered() == 0 }, nil)
					paused = true
					rc.Lib.Out().Cap = 512
					rc.Lib.Out().HardCap = true
					if rconc == 4 {
						if e := c.Write(bg, websocket.MessageBinary, make([]byte, 40)); e != nil {
							r.Violate("call-failed-after-harmless-cancel", sig+",filler", "filler write failed: %v", e)
							return
						}
						rc.Lib.Out().Cap = rc.Lib.Out().Buffered()
					} else {
						r.S.Go("bgwriter", func() { c.Write(bg, websocket.MessageBinary, Payload{Kind: 2, Len: 40000, Seed: 4}.Bytes()) })
						r.S.ParkE("a.prog.waitwriter", func() bool { return rc.Lib.InWriteLocked() }, nil)
					}
					peer.Inject(peer.Encode(wsref.Frame{Fin: true, Opcode: wsref.OpPing, Payload: []byte("answer me")}))
				}
				r.S.Count(fmt.Sprintf("probe.cancel-during-read-blocked%d", rconc))
				_, _, err = c.Read(ctx)
			case 2, 3:
				// let the peer drain what earlier calls wrote, then stop it
				r.S.ParkE("a.prog.drain", func() bool { return rc.Lib.Out().Buffered() == 0 }, nil)
				paused = true
				rc.Lib.Out().Cap = 512
				rc.Lib.Out().HardCap = true
				switch conc {
				case 1:
					if !pingFlavour {
						// somebody has to read for the ping to be seen
						r.S.Go("bgreader", func() { c.Read(bg) })
					}
					time.AfterFunc(termDelay/2, func() {
						peer.Inject(peer.Encode(wsref.Frame{Fin: true, Opcode: wsref.OpPing, Payload: []byte("queued")}))
					})
				case 2:
					// fill the pipe exactly, then block a Ping in the transport
					if e := c.Write(bg, websocket.MessageBinary, make([]byte, 40)); e != nil {
						r.Violate("call-failed-after-harmless-cancel", sig+",filler", "filler write failed: %v", e)
						return
					}
					rc.Lib.Out().Cap = rc.Lib.Out().Buffered()
					r.S.Go("bgping", func() { c.Ping(bg) })
					r.S.ParkE("a.prog.waitping", func() bool { return rc.Lib.InWriteLocked() }, nil)
				}
				if termKind == 3 {
					// a streaming Writer fed with chunks smaller than the write buffer:
					// the call that overflows the buffer blocks in the transport
					w, e := c.Writer(ctx, websocket.MessageBinary)
					chunk := Payload{Kind: 2, Len: []int{1500, 700, 4000}[int(termDelay/time.Millisecond)%3], Seed: 3}.Bytes()
					for i := 0; i < 40 && e == nil; i++ {
						_, e = w.Write(chunk)
					}
					if e == nil {
						e = w.Close()
					}
					err = e
				} else {
					if conc == 0 && int(termDelay/time.Millisecond)%2 == 0 {
						// the peer starts reading again at the worst moment: after the
						// connection has been marked closed because of this call's context and
						// before the transport is closed, so that the transport takes the rest
						// of the frame after all. The call was cancelled while it was blocked:
						// it must still report an error.
						r.ForceYield("close.flagged")
						r.S.Go("resumer", func() {
							r.S.ParkE("a.resumer", func() bool { return r.YieldSeenLocked("close.flagged") > 0 || progDone }, nil)
							if !progDone {
								paused = false
								rc.Lib.Out().Cap = 1 << 30
								r.S.Kick()
								r.S.Count("probe.peer-resumes-between-closed-flag-and-transport-close")
							}
						})
					}
					err = c.Write(ctx, websocket.MessageBinary, Payload{Kind: 2, Len: 40000, Seed: 3}.Bytes())
				}
			default:
				withholdPong = true
				err = c.Ping(ctx)
			}
			took := r.S.Now() - start
			s2 := sig + ",op=" + c10Ops[termKind]
			if termKind <= 1 {
				s2 += fmt.Sprintf(",blocked=%d", rconc)
			}
			if err == nil {
				r.Violate("blocked-call-survived-cancel", s2, "%s returned nil although its context ended after %v while it was blocked", c10Ops[termKind], termDelay)
				return
			}
			if took > termDelay+time.Second {
				r.Violate("cancel-not-prompt", s2, "%s returned %v after its context ended", c10Ops[termKind], took-termDelay)
			}
			if (termKind == 2 || termKind == 3) && conc != 0 {
				r.S.Count(fmt.Sprintf("probe.cancel-during-write-conc%d", conc))
			}
			if termKind != 4 {
				r.S.Count("probe.cancel-during-io")
				if !inIO {
					r.S.Count("probe.cancel-during-not-in-io")
					return
				}
				// (the goroutine that closes the connection because of the context may
				// still stand between marking it closed and closing the transport when
				// the cancelled call returns: it gets a moment of simulated time)
				if !rc.Lib.Closed() {
					r.S.Sleep(100 * time.Millisecond)
				}
				if !rc.Lib.Closed() {
					r.Violate("connection-not-closed-after-cancel", s2, "context ended while %s was blocked in transport I/O, the call failed with %v but the connection was not closed", c10Ops[termKind], err)
				} else if e2 := c.Write(bg, websocket.MessageText, []byte("x")); e2 == nil {
					r.Violate("connection-not-closed-after-cancel", s2, "a Write after the cancelled %s succeeded", c10Ops[termKind])
				}
			}
		case 2: // already cancelled: only termination is required
			ctx, cancel := context.WithCancel(bg)
			cancel()
			p := opPlan{kind: termKind, size: 100, seed: 9, frags: []int{100}}
			_ = doOp(-2, p, ctx)
		}
	})
	r.S.Loop()
	if r.S.Aborted == "sim-time" {
		r.Violate("stuck", sig, "program did not finish: parked=%v; last context cancelled: %s; %s %s", r.S.ParkedIDs(), lastCancelled, rc.Lib.Debug(), rc.Raw.Debug())
	}
}
