package props

import (
	"bytes"
	"context"
	"fmt"
	"runtime"
	"time"

	"nhooyr.io/websocket"

	"verifsim/wsref"
)

// yieldCtx is a caller-supplied context whose Done method gives up the
// processor a few times before answering - what a preemption at that point
// does on a real machine. The library calls Done in the middle of some of its
// API functions (CloseRead derives its context from the caller's); together
// with a second caller that is runnable at the same time this interleaves two
// calls inside a window that has no other scheduling point.
type yieldCtx struct {
	context.Context
	n int
}

func (y *yieldCtx) Done() <-chan struct{} {
	for i := 0; i < y.n; i++ {
		runtime.Gosched()
	}
	return y.Context.Done()
}

// c05ConcurrentCloseRead: CloseRead is documented as safe for concurrent use
// and as idempotent. Several goroutines call it at the same instant (they are
// runnable together within one scheduler step and interleave through
// yieldCtx), next to writers and a pinger; then the peer sends pings and a
// data message whose payload looks like a sequence of frames. One reader must
// be at work: the pings are answered once each, the data message is answered
// with exactly one Close frame (1008) and none of its payload is acted upon.
func c05ConcurrentCloseRead(r *Run) {
	t := r.Tape
	r.DrawYields()
	r.S.Stick = []int{0, 40, 80}[t.Draw(3)]
	r.S.MaxSteps = 40000
	r.S.MaxSim = 3 * time.Minute
	rc, err := r.drawRawConn("c0", 0)
	if err != nil {
		r.Violate("handshake-failed", "raw", "%v", err)
		return
	}
	a, peer := rc.C, rc.Peer
	k := 2 + t.Draw(2)
	yields := 1 + t.Draw(3)
	nW := t.Draw(3)
	nPeerPings := t.Draw(4)
	evil := t.Draw(3) // payload of the data message: 0 tagged bytes, 1 a ping frame, 2 a ping and a close frame
	rc.Lib.Out().Cap = []int{1 << 30, 4096, 512}[t.Draw(3)]
	rc.Lib.Out().WChunk = t.Weighted(4, 1, 2, 2, 2)
	rc.Lib.In().RChunk = t.Weighted(4, 1, 2, 2, 2)
	sig := "concurrent-closeread"
	r.Class = fmt.Sprintf("%s/k%d/w%d/cli%v/evil%d", sig, k, nW, rc.Opts.LibClient, evil)
	r.D("scenario", "concurrent CloseRead calls")
	r.D("callers", k)
	r.D("writers", nW)
	r.D("role_lib_client", rc.Opts.LibClient)
	r.D("data_payload", []string{"tagged", "ping-frame", "ping+close-frames"}[evil])
	r.Nontrivial = true
	bg := context.Background()

	ctxs := make([]context.Context, k)
	returned := false
	r.S.Go("cr", func() {
		r.S.Park("a.cr")
		done := make(chan string, k)
		for i := 1; i < k; i++ {
			i := i
			go func() {
				defer func() {
					if p := recover(); p != nil {
						done <- fmt.Sprint(p)
						return
					}
					done <- ""
				}()
				ctxs[i] = a.CloseRead(&yieldCtx{bg, yields})
			}()
		}
		ctxs[0] = a.CloseRead(&yieldCtx{bg, yields})
		for i := 1; i < k; i++ {
			if p := <-done; p != "" {
				r.Violate("panic", sig, "concurrent CloseRead call panicked: %s", p)
			}
		}
		returned = true
		r.S.Count("probe.concurrent-closeread")
	})
	for i := 0; i < nW; i++ {
		id := i + 1
		name := fmt.Sprintf("w%d", id)
		r.S.Go(name, func() {
			for j := 0; j < 3; j++ {
				r.S.Park("a." + name)
				if err := a.Write(bg, websocket.MessageBinary, tagged(id, 2, j, 16+40*j)); err != nil {
					return
				}
			}
		})
	}
	var sentPings [][]byte
	r.S.Go("peer-wr", func() {
		r.S.ParkE("a.peer-wr", func() bool { return returned }, nil)
		for i := 0; i < nPeerPings; i++ {
			p := []byte(fmt.Sprintf("real-%d", i))
			sentPings = append(sentPings, p)
			peer.Send(wsref.Frame{Fin: true, Opcode: wsref.OpPing, Payload: p})
			r.S.Park("a.peer-wr.next")
		}
		data := tagged(9, 0, 0, 64)
		switch evil {
		case 1:
			data = peer.Encode(wsref.Frame{Fin: true, Opcode: wsref.OpPing, Payload: []byte("evil")})
		case 2:
			data = peer.Encode(wsref.Frame{Fin: true, Opcode: wsref.OpPing, Payload: []byte("evil")},
				wsref.Frame{Fin: true, Opcode: wsref.OpClose, Payload: wsref.ClosePayload(1000, "evil")})
		}
		peer.Send(wsref.Frame{Fin: true, Opcode: wsref.OpBinary, Payload: data})
	})
	r.S.Go("peer-rd", func() {
		seen := 0
		for {
			f := peer.Next(&seen)
			if f == nil {
				return
			}
			switch f.Opcode {
			case wsref.OpPing:
				peer.Send(wsref.Frame{Fin: true, Opcode: wsref.OpPong, Payload: f.Payload})
			case wsref.OpClose:
				peer.Send(wsref.Frame{Fin: true, Opcode: wsref.OpClose, Payload: f.Payload})
			}
		}
	})
	r.S.Go("finisher", func() {
		r.S.ParkE("a.finisher", func() bool { return returned }, nil)
		// CloseRead closes the connection by itself when the data message arrives
		r.S.ParkE("a.finisher.closed", func() bool { return rc.Lib.ClosedLocked() || r.S.Now() > 60*time.Second }, nil)
		a.CloseNow()
	})
	time.AfterFunc(61*time.Second, r.S.Kick)
	r.S.Loop()
	if r.S.Aborted != "" {
		if r.S.Aborted == "sim-time" {
			r.Violate("stuck", sig, "concurrent CloseRead program did not finish: parked=%v; inside the library: %q", r.S.ParkedIDs(), blockedInLibrary())
		}
		return
	}
	if len(r.Viol) > 0 {
		return
	}
	if peer.ParseErr != nil {
		r.Violate("unparsable", sig, "emitted bytes do not parse: %v", peer.ParseErr)
		return
	}
	msgs, _, _ := checkEmitted(r, sig, peer.Frames, rc.Opts.LibClient, rc.Neg, rc.LibTake)
	lastSeq := map[int]int{}
	for i, m := range msgs {
		if !c05Check(r, sig, m.Payload, true, lastSeq, fmt.Sprintf("wire message %d", i)) {
			return
		}
	}
	// pongs: one per ping the peer really sent, same payloads, same order
	var pongs [][]byte
	var closes []RxFrame
	for _, f := range peer.Frames {
		switch f.Opcode {
		case wsref.OpPong:
			pongs = append(pongs, f.Payload)
		case wsref.OpClose:
			closes = append(closes, f)
		}
	}
	for i, p := range pongs {
		if i >= len(sentPings) || !bytes.Equal(p, sentPings[i]) {
			r.Violate("spurious-frame", sig, "the library sent a pong %q that answers none of the peer's pings %q (payload of the data message acted upon as frames?)", p, sentPings)
			return
		}
	}
	if len(pongs) < len(sentPings) {
		r.Violate("pong-missing", sig, "library answered %d of %d pings that preceded the data message", len(pongs), len(sentPings))
	}
	if len(closes) != 1 {
		r.Violate("close-frames", sig, "%d Close frames were sent in answer to one unexpected data message (CloseRead closes with 1008)", len(closes))
		return
	}
	if pl := closes[0].Payload; len(pl) < 2 || int(pl[0])<<8|int(pl[1]) != 1008 {
		r.Violate("close-frames", sig, "the data message received under CloseRead was answered with Close payload %x, not with status 1008 (the peer sent nothing but valid frames)", pl)
	}
}
