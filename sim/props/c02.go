package props

import (
	"bytes"
	"context"
	"fmt"
	"strings"
	"time"

	"nhooyr.io/websocket"

	"verifsim/wsref"
)

// C02 — everything an endpoint emits is a conformant RFC 6455 / 7692 stream.

func init() {
	register(&Prop{ID: "C02", Run: runC02, Quick: 20000, Thorough: 1000000, Level: "exploration"})
}

type wActor struct {
	name string
	msgs []sentMsg
	ok   int  // number of writes that returned nil
	err  bool // a write failed
}

// checkEmitted validates the frames a library endpoint emitted against RFC
// 6455/7692 and returns the reassembled data messages.
func checkEmitted(r *Run, sig string, frames []RxFrame, libIsClient bool, neg Negotiated, libTake bool) (msgs []wsref.Event, closes []wsref.Event, ok bool) {
	dec := &wsref.Decoder{ExpectMasked: libIsClient, Deflate: neg.Deflate, Takeover: libTake, KeepGoingAfterClose: true}
	var keys [][4]byte
	ok = true
	for i, f := range frames {
		if f.Masked != libIsClient {
			r.Violate("masking", sig, "frame %d: masked=%v but the endpoint is client=%v", i, f.Masked, libIsClient)
			return msgs, closes, false
		}
		if f.Masked {
			keys = append(keys, f.Key)
			if n := len(keys); n >= 4 && keys[n-1] == keys[n-2] && keys[n-2] == keys[n-3] && keys[n-3] == keys[n-4] {
				r.Violate("mask-key-reused", sig, "frames %d..%d all use masking key %x", i-3, i, f.Key)
				return msgs, closes, false
			}
		}
		if f.LenEnc != wsref.MinimalEnc(f.Len) {
			r.Violate("non-minimal-length", sig, "frame %d: payload length %d encoded in class %d", i, f.Len, f.LenEnc)
			ok = false
		}
		if wsref.IsControl(f.Opcode) && (!f.Fin || f.Len > 125) {
			r.Violate("bad-control-frame", sig, "frame %d: control opcode %x fin=%v len=%d", i, f.Opcode, f.Fin, f.Len)
			return msgs, closes, false
		}
		// (whether anything may follow a Close frame is C16's subject: the
		// decoder keeps going so that this check does not depend on it)
		for _, ev := range dec.Feed(f.Frame) {
			switch ev.Kind {
			case wsref.EvViolation:
				r.Violate("stream-violation", sig+",what="+ev.What, "frame %d (opcode %x fin=%v rsv1=%v len=%d): %s", i, f.Opcode, f.Fin, f.Rsv1, f.Len, ev.What)
				return msgs, closes, false
			case wsref.EvMsg:
				if ev.InflateErr != nil {
					r.Violate("does-not-inflate", sig, "message ending at frame %d does not inflate under the negotiated parameters (takeover=%v): %v", i, libTake, ev.InflateErr)
					return msgs, closes, false
				}
				msgs = append(msgs, ev)
			case wsref.EvClose:
				closes = append(closes, ev)
				if len(ev.Reason) > 123 {
					r.Violate("close-reason-too-long", sig, "close reason %d bytes", len(ev.Reason))
				}
			}
		}
	}
	return msgs, closes, ok
}

// matchWriters checks that the received messages are an interleaving of
// per-writer prefixes (order kept per writer), each writer contributing at
// least the messages whose write returned nil.
func matchWriters(recv []wsref.Event, ws []*wActor) (bool, string) {
	pos := make([]int, len(ws))
	memo := map[string]bool{}
	var rec func(i int) bool
	rec = func(i int) bool {
		if i == len(recv) {
			for k, w := range ws {
				if pos[k] < w.ok {
					return false
				}
			}
			return true
		}
		key := fmt.Sprint(i, pos)
		if v, ok := memo[key]; ok {
			return v
		}
		res := false
		for k, w := range ws {
			if pos[k] < len(w.msgs) {
				m := w.msgs[pos[k]]
				if int(m.Typ) == int(recv[i].Type) && bytes.Equal(m.Data, recv[i].Payload) {
					pos[k]++
					if rec(i + 1) {
						res = true
					}
					pos[k]--
					if res {
						break
					}
				}
			}
		}
		memo[key] = res
		return res
	}
	if rec(0) {
		return true, ""
	}
	var sb strings.Builder
	for _, m := range recv {
		fmt.Fprintf(&sb, "[t%d len%d] ", m.Type, len(m.Payload))
	}
	sb.WriteString(" vs writers ")
	for _, w := range ws {
		fmt.Fprintf(&sb, "%s(ok=%d):", w.name, w.ok)
		for _, m := range w.msgs {
			fmt.Fprintf(&sb, "[t%d len%d] ", m.Typ, len(m.Data))
		}
	}
	return false, sb.String()
}

func runC02(r *Run) {
	t := r.Tape
	rc, err := r.drawRawConn("c0", 0)
	if err != nil {
		r.Violate("handshake-failed", "raw", "handshake failed: %v", err)
		return
	}
	libIsClient := rc.Opts.LibClient
	thr := rc.Opts.Thresh
	r.DrawYields()
	nW := 1 + t.Draw(3)
	var ws []*wActor
	vol := 0
	for i := 0; i < nW; i++ {
		w := &wActor{name: fmt.Sprintf("w%d", i)}
		w.msgs = drawMessages(r, 1+t.Draw(4), 70000, []int{thr, 128, 512})
		// make payloads writer-specific so that matching is unambiguous where possible
		for j := range w.msgs {
			if len(w.msgs[j].Data) >= 2 {
				w.msgs[j].Data[0] = byte('A' + i)
				w.msgs[j].Data[1] = byte('0' + j)
			}
			vol += len(w.msgs[j].Data)
		}
		ws = append(ws, w)
	}
	nPing := t.Draw(3)
	// (codes the library may not send and reasons that do not fit are part of
	// "any sequence of API calls": whatever Close does with them, the Close frame
	// it emits must be sendable)
	closeCode := []int{1000, 1001, 1008, 3000, 4999, 1005, 1006, 1015, 999, 5000, 0, 1016, 2999, 1004}[t.Weighted(4, 3, 3, 3, 3, 3, 1, 1, 1, 1, 1, 1, 1, 2)]
	reasonLen := []int{0, 5, 123, 122, 124, 125, 126, 127, 300, 70000}[t.Weighted(4, 4, 4, 2, 3, 3, 2, 1, 1, 1)]
	earlyClose := t.Pct(30)
	closeAfter := t.Draw(6)
	r.DrawNetKnobs(vol, rc.Lib.Out())
	r.S.MaxSteps = 60000
	// Stall mode (15%): every message is small and goes through a streaming Writer
	// with a context of its own, the pipe is tiny, and the peer stops reading for
	// 2.5 s at a drawn step. Control frames then get stuck in the transport holding
	// the frame lock, and Writer / Write / Close calls give up one by one while they
	// wait behind them - without the connection being closed. Whatever was emitted
	// must stay a well-formed prefix of a conformant stream.
	stall := t.Pct(15)
	stallAfter := 1 + t.Draw(25)
	holding := false
	if stall {
		for wi, w := range ws {
			for j := range w.msgs {
				n := 16 + t.Draw(200)
				w.msgs[j].Data = Payload{Kind: 3, Len: n, Seed: t.U32()}.Bytes()
				w.msgs[j].Data[0], w.msgs[j].Data[1] = byte('A'+wi), byte('0'+j)
				w.msgs[j].API = 1
				w.msgs[j].Chunk = []int{n / 2, n - n/2}
			}
		}
		if nPing == 0 {
			nPing = 2
		}
		earlyClose = false
		rc.Lib.Out().Cap = 16
		rc.Lib.Out().HardCap = true
		rc.Peer.Hold = func() bool { return holding }
		r.S.Count("fault.receiver-stall")
	}

	sig := fmt.Sprintf("cli=%v,deflate=%v,libtake=%v", libIsClient, rc.Neg.Deflate, rc.LibTake)
	r.Class = fmt.Sprintf("%s/w%d/p%d/early%v", sig, nW, nPing, earlyClose)
	r.D("role_lib_client", libIsClient)
	r.D("ext", rc.Opts.Ext)
	r.D("mode", int(rc.Opts.Mode))
	r.D("threshold", thr)
	for _, w := range ws {
		r.D(w.name, describe(w.msgs))
	}
	r.D("pings", nPing)
	r.D("close", fmt.Sprintf("%d/%d early=%v after=%d", closeCode, reasonLen, earlyClose, closeAfter))
	r.Nontrivial = true

	c := rc.C
	crCtx := c.CloseRead(context.Background())
	_ = crCtx
	closing := false
	writersLeft := nW
	pingsLeft := 0
	for _, w := range ws {
		w := w
		r.S.Go(w.name, func() {
			defer func() { writersLeft-- }()
			for i, m := range w.msgs {
				r.S.Park("a." + w.name)
				wctx := context.Background()
				if stall {
					var cancel context.CancelFunc
					wctx, cancel = context.WithTimeout(wctx, 1500*time.Millisecond+time.Duration(len(w.name)+i)*173*time.Microsecond)
					defer cancel()
				}
				err := writeMsg(r, c, wctx, m, w.name)
				if err != nil {
					w.err = true
					if !closing {
						r.Violate("write-error", sig, "%s: write %d failed before any close was started: %v", w.name, i, err)
					}
					return
				}
				w.ok++
			}
		})
	}
	if nPing > 0 {
		pingsLeft = 1
		r.S.Go("pinger", func() {
			defer func() { pingsLeft-- }()
			for i := 0; i < nPing; i++ {
				r.S.Park("a.pinger")
				ctx, cancel := context.WithTimeout(context.Background(), 20*time.Second)
				err := c.Ping(ctx)
				cancel()
				if err != nil {
					if !closing {
						r.Violate("ping-error", sig, "ping %d failed before any close was started: %v", i, err)
					}
					return
				}
			}
		})
	}
	if stall {
		r.S.Go("staller", func() {
			for n := 0; n < stallAfter; n++ {
				r.S.Park("a.staller")
			}
			closing = true // from here on calls may legitimately fail
			holding = true
			r.S.Sleep(2500 * time.Millisecond)
			holding = false
			r.S.Kick()
		})
	}
	reason := strings.Repeat("r", reasonLen)
	var closeErr error
	r.S.Go("closer", func() {
		if earlyClose {
			for n := 0; n <= closeAfter; n++ {
				r.S.Park("a.closer")
			}
		} else {
			r.S.ParkE("a.closer", func() bool { return writersLeft == 0 && pingsLeft == 0 }, nil)
		}
		closing = true
		closeErr = c.Close(websocket.StatusCode(closeCode), reason)
	})
	peer := rc.Peer
	r.S.Go("peer", func() {
		seen := 0
		for {
			f := peer.Next(&seen)
			if f == nil {
				return
			}
			switch f.Opcode {
			case wsref.OpPing:
				peer.Send(wsref.Frame{Fin: true, Opcode: wsref.OpPong, Payload: f.Payload})
			case wsref.OpClose:
				peer.Send(wsref.Frame{Fin: true, Opcode: wsref.OpClose, Payload: f.Payload})
			}
		}
	})
	r.S.Loop()
	if r.S.Aborted != "" {
		if r.S.Aborted == "sim-time" {
			r.Violate("stuck", sig, "program did not finish against a cooperative peer: parked=%v", r.S.ParkedIDs())
		}
		return
	}
	if peer.ParseErr != nil {
		r.Violate("unparsable", sig, "emitted bytes do not parse as frames: %v", peer.ParseErr)
		return
	}
	if !peer.EOF && peer.Err == nil && peer.TrailingGarbage() > 0 {
		r.Violate("incomplete-frame-on-open-connection", sig, "%d trailing bytes that are not a complete frame", peer.TrailingGarbage())
	}
	msgs, closes, _ := checkEmitted(r, sig, peer.Frames, libIsClient, rc.Neg, rc.LibTake)
	if len(r.Viol) > 0 {
		return
	}
	anyErr := false
	for _, w := range ws {
		anyErr = anyErr || w.err
	}
	if stall && anyErr {
		// (a message whose Writer failed half way stays unfinished on the wire and the
		// writers behind it never get their turn: only conformance is checked)
	} else if ok, why := matchWriters(msgs, ws); !ok {
		r.Violate("messages-differ", sig, "messages reconstructed by the reference decoder are not an order-preserving interleaving of what was written: %s", why)
	}
	if len(closes) > 0 {
		c0 := closes[0]
		if closeCode == 1005 {
			reason = "" // the no-status code is sent as an empty payload
		}
		sendable := wsref.ValidWireCode(closeCode) && reasonLen <= 123 || closeCode == 1005
		if sendable && (c0.Code != closeCode || c0.Reason != reason) {
			r.Violate("close-payload", sig, "Close(%d,%dB reason) emitted as (%d,%q)", closeCode, reasonLen, c0.Code, c0.Reason)
		}
		if !sendable {
			r.S.Count("probe.close-with-unsendable-arguments")
		}
	} else if closeErr == nil && !(stall && anyErr) {
		// (with a stall a call's context may have closed the connection before Close
		// was called; Close then has nothing to send and returns nil)
		r.Violate("close-missing", sig, "Close returned nil but no Close frame was emitted")
	}
	for _, m := range msgs {
		if m.Compressed {
			r.S.Count("probe.compressed-msg")
			break
		}
	}
}
