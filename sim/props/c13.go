package props

import (
	"bufio"
	"bytes"
	"context"
	"encoding/base64"
	"fmt"
	"net"
	"net/http"
	"strings"
	"time"

	"nhooyr.io/websocket"

	"verifsim/simrt"
	"verifsim/wsref"
)

// C13 — Dial sends a well-formed handshake and accepts only a valid server
// response (real http.Transport over the simulated transport).

func init() {
	register(&Prop{ID: "C13", Run: runC13, Enum: enumC13, Quick: 4000, Thorough: 300000, Level: "exploration", Race: true,
		Exhaustive: "response grammar: status x Connection x Upgrade x accept-key x subprotocol x extension variants x client mode (thorough); covering sample (quick)"})
}

type respVariant struct {
	val string // header value ("" with absent=true means header absent)
	abs bool
	ok  bool
	dc  bool
}

var c13Status = []int{101, 200, 204, 400, 403, 500}
var c13Conn = []respVariant{{"Upgrade", false, true, false}, {"upgrade", false, true, false}, {"keep-alive, Upgrade", false, true, false}, {"keep-alive", false, false, false}, {"", true, false, false},
	// values that merely contain the token's letters
	{"Upgrades", false, false, false}, {"keep-alive, not-upgrade", false, false, false}}
var c13Upg = []respVariant{{"websocket", false, true, false}, {"WebSocket", false, true, false}, {"foo, websocket", false, true, false}, {"h2c", false, false, false}, {"", true, false, false},
	{"websocket2", false, false, false}, {"notwebsocket", false, false, false}, {"h2c, x-websocket-legacy", false, false, false}}
var c13Accept = []string{"correct", "other-key", "missing", "truncated", "case-swapped", "padded", "doubled-header", "correct-plus-garbage"}
// (a server selects exactly one subprotocol: a list, or a second header line, that
// merely contains a requested name is not a valid answer)
var c13Proto = []string{"none", "requested", "requested-other-case", "not-requested", "list-containing-requested", "two-lines-one-requested"}

type extVariant struct {
	val  string
	ok   bool // acceptable when the client enabled compression
	dc   bool
	cnct bool
	snct bool
}

var c13Ext = []extVariant{
	{"", true, false, false, false},
	{"permessage-deflate", true, false, false, false},
	{"permessage-deflate; client_no_context_takeover", true, false, true, false},
	{"permessage-deflate; server_no_context_takeover", true, false, false, true},
	{"permessage-deflate; server_max_window_bits=10", true, false, false, false},
	{"permessage-deflate; client_max_window_bits", false, false, false, false},
	{"permessage-deflate; client_max_window_bits=10", false, false, false, false},
	{"x-webkit-deflate-frame", false, false, false, false},
	{"permessage-deflate, permessage-deflate", false, false, false, false},
	{"permessage-deflate; unknown_param", false, false, false, false},
	{"permessage-deflate; server_no_context_takeover; server_no_context_takeover", true, true, false, true},
	{"permessage-deflate; server_max_window_bits=99", true, true, false, false},
	// parameters after a server_max_window_bits value count as well
	{"permessage-deflate; server_max_window_bits=12; unknown_param", false, false, false, false},
	{"permessage-deflate; server_max_window_bits=15; client_no_context_takeover", true, false, true, false},
	{"permessage-deflate; server_max_window_bits=10; client_max_window_bits=10", false, false, false, false},
	// several header lines (separated by \n here): every line counts
	{"permessage-deflate\nx-custom-mux", false, false, false, false},
	{"permessage-deflate\npermessage-deflate; client_max_window_bits=8", false, false, false, false},
	{"x-custom-mux\npermessage-deflate", false, false, false, false},
	{"permessage-deflate; server_no_context_takeover\nunknown-ext; a=b", false, false, false, true},
}

func enumC13(tier string) [][]uint32 {
	var out [][]uint32
	dims := []int{len(c13Status), len(c13Conn), len(c13Upg), len(c13Accept), len(c13Proto), len(c13Ext), 3}
	if tier != "thorough" {
		for d, n := range dims {
			for v := 0; v < n; v++ {
				p := make([]uint32, 8)
				p[d] = uint32(v)
				if d != 6 {
					p[6] = 1 // compression enabled
				}
				out = append(out, p)
			}
		}
		for e := range c13Ext {
			for m := 0; m < 3; m++ {
				out = append(out, []uint32{0, 0, 0, 0, 0, uint32(e), uint32(m), 0})
			}
		}
		return out
	}
	for s := range c13Status {
		for a := range c13Conn {
			for b := range c13Upg {
				for k := range c13Accept {
					for e := range c13Ext {
						out = append(out, []uint32{uint32(s), uint32(a), uint32(b), uint32(k), uint32((s + a + b + k + e) % len(c13Proto)), uint32(e), uint32((a + b + e) % 3), 0})
					}
				}
			}
		}
	}
	return out
}

type c13SideKey struct{}

func runC13(r *Run) {
	t := r.Tape
	si := t.Draw(len(c13Status))
	ci := t.Draw(len(c13Conn))
	ui := t.Draw(len(c13Upg))
	ai := t.Draw(len(c13Accept))
	pi := t.Draw(len(c13Proto))
	ei := t.Draw(len(c13Ext))
	mode := modes[t.Draw(3)]
	// random runs: 25% unconstrained (mostly several faults at once), 35% acceptable
	// responses, 40% acceptable in every dimension but one (a fault is not masked by
	// another one); enumerated prefixes force 0 here
	if b := t.Draw(20); b >= 5 {
		vs, vc, vu, va, vp, ve := si, ci, ui, ai, pi, ei
		si, ci, ui, ai = 0, ci%3, ui%3, 0
		pi = pi % 2
		ei = ei % 5
		if b >= 12 {
			switch t.Draw(6) {
			case 0:
				si = vs
			case 1:
				ci = vc
			case 2:
				ui = vu
			case 3:
				ai = va
			case 4:
				pi = vp
			case 5:
				ei = ve
			}
		}
	}
	fault := t.Weighted(6, 1, 1) // 0 none, 1 cut, 2 stall
	nSub := t.Draw(3)
	subs := []string{"chat", "superchat"}[:nSub]
	hostOverride := t.Draw(2) == 1
	extraHdr := t.Draw(3)
	clientTimeout := t.Draw(2) == 1
	attempts := 1 + t.Draw(2)
	varyOpts := t.Draw(2) == 1
	r.S.MaxSim = 3 * time.Minute
	r.S.MaxSteps = 30000
	r.S.Stick = []int{0, 60}[t.Draw(2)]

	status := c13Status[si]
	cv, uv, ev := c13Conn[ci], c13Upg[ui], c13Ext[ei]
	if (pi == 1 || pi == 2 || pi >= 4) && nSub == 0 {
		pi = 0
	}
	protoOK := pi != 3 && pi < 4
	protoDC := pi == 2
	extOK := ev.val == "" || mode != websocket.CompressionDisabled && ev.ok
	accept := status == 101 && cv.ok && uv.ok && ai == 0 && protoOK && extOK
	dontCare := protoDC && nSub > 0 || ev.dc && mode != websocket.CompressionDisabled
	if fault != 0 {
		accept = false
		dontCare = false
	}
	sig := fmt.Sprintf("accept=%v,fault=%d", accept, fault)
	r.Class = fmt.Sprintf("%s/s%d/c%d/u%d/a%d/p%d/e%d/m%d", sig, si, ci, ui, ai, pi, ei, mode)
	r.D("status", status)
	r.D("connection", cv.val)
	r.D("upgrade", uv.val)
	r.D("accept_key", c13Accept[ai])
	r.D("protocol", c13Proto[pi])
	r.D("extensions", ev.val)
	r.D("client_mode", int(mode))
	r.D("subprotocols", subs)
	r.D("fault", []string{"none", "cut", "stall"}[fault])
	r.D("attempts", attempts)
	r.Nontrivial = true

	type attemptRec struct {
		reqHdr  http.Header
		reqLine string
		host    string
		key     string
		ce      *simrt.End
	}
	var recs []*attemptRec
	var serverErr string
	// the raw server: one actor per dialled connection
	serve := func(se *simrt.End, rec *attemptRec, n int) {
		br := bufio.NewReader(se)
		line, err := br.ReadString('\n')
		if err != nil {
			return
		}
		rec.reqLine = strings.TrimSpace(line)
		rec.reqHdr = http.Header{}
		for {
			l, e := br.ReadString('\n')
			if e != nil {
				return
			}
			l = strings.TrimRight(l, "\r\n")
			if l == "" {
				break
			}
			if i := strings.IndexByte(l, ':'); i > 0 {
				name := http.CanonicalHeaderKey(strings.TrimSpace(l[:i]))
				if name == "Host" {
					rec.host = strings.TrimSpace(l[i+1:])
				}
				rec.reqHdr.Add(name, strings.TrimSpace(l[i+1:]))
			}
		}
		rec.key = rec.reqHdr.Get("Sec-Websocket-Key")
		var resp bytes.Buffer
		fmt.Fprintf(&resp, "HTTP/1.1 %d %s\r\n", status, http.StatusText(status))
		if !cv.abs {
			fmt.Fprintf(&resp, "Connection: %s\r\n", cv.val)
		}
		if !uv.abs {
			fmt.Fprintf(&resp, "Upgrade: %s\r\n", uv.val)
		}
		switch ai {
		case 0:
			fmt.Fprintf(&resp, "Sec-WebSocket-Accept: %s\r\n", AcceptKey(rec.key))
		case 1:
			fmt.Fprintf(&resp, "Sec-WebSocket-Accept: %s\r\n", AcceptKey(base64.StdEncoding.EncodeToString([]byte("another-key-0123"))))
		case 3:
			k := AcceptKey(rec.key)
			fmt.Fprintf(&resp, "Sec-WebSocket-Accept: %s\r\n", k[:len(k)-3])
		case 4:
			// base64 is case sensitive: the right letters in the other case are a wrong value
			k := []byte(AcceptKey(rec.key))
			for i, b := range k {
				switch {
				case b >= 'a' && b <= 'z':
					k[i] = b - 32
				case b >= 'A' && b <= 'Z':
					k[i] = b + 32
				}
			}
			fmt.Fprintf(&resp, "Sec-WebSocket-Accept: %s\r\n", k)
		case 5:
			fmt.Fprintf(&resp, "Sec-WebSocket-Accept: %s=\r\n", AcceptKey(rec.key))
		case 6:
			fmt.Fprintf(&resp, "Sec-WebSocket-Accept: %s\r\n", AcceptKey(base64.StdEncoding.EncodeToString([]byte("another-key-0123"))))
			fmt.Fprintf(&resp, "Sec-WebSocket-Accept: %s\r\n", AcceptKey(rec.key))
		case 7:
			fmt.Fprintf(&resp, "Sec-WebSocket-Accept: %s, x\r\n", AcceptKey(rec.key))
		}
		switch pi {
		case 1:
			fmt.Fprintf(&resp, "Sec-WebSocket-Protocol: %s\r\n", subs[0])
		case 2:
			fmt.Fprintf(&resp, "Sec-WebSocket-Protocol: %s\r\n", strings.ToUpper(subs[0]))
		case 3:
			resp.WriteString("Sec-WebSocket-Protocol: other\r\n")
		case 4:
			fmt.Fprintf(&resp, "Sec-WebSocket-Protocol: evil, %s\r\n", subs[0])
		case 5:
			fmt.Fprintf(&resp, "Sec-WebSocket-Protocol: evil\r\nSec-WebSocket-Protocol: %s\r\n", subs[0])
		}
		if ev.val != "" {
			for _, line := range strings.Split(ev.val, "\n") {
				fmt.Fprintf(&resp, "Sec-WebSocket-Extensions: %s\r\n", line)
			}
		}
		bigBody := (n+len(rec.key))%3 == 0 && fault == 0 // (a third of the responses carry more than a kilobyte behind the header)
		if status != 101 && status != 204 {
			if bigBody {
				fmt.Fprintf(&resp, "Content-Length: 3000\r\n\r\n%s", strings.Repeat("error page ", 300)[:3000])
			} else {
				resp.WriteString("Content-Length: 5\r\n\r\nnope!")
			}
		} else {
			resp.WriteString("\r\n")
			if status == 101 && !accept && !dontCare && bigBody && fault == 0 {
				// a server that starts talking right after its (unacceptable) 101
				for k := 0; k < 12; k++ {
					resp.Write(wsref.AppendFrame(nil, wsref.Frame{Fin: true, Opcode: wsref.OpBinary, Payload: make([]byte, 120)}))
				}
			}
		}
		b := resp.Bytes()
		if fault != 0 {
			k := 1 + (n*7+len(b)/2)%(len(b)-1)
			se.Write(b[:k])
			if fault == 1 {
				se.Close()
			}
			// stall: nothing more, ever
			buf := make([]byte, 256)
			for {
				if _, err := se.Read(buf); err != nil {
					return
				}
			}
		}
		// deliver the response in two pieces
		h := len(b) / 2
		se.Write(b[:h])
		r.S.Park("a.srv.piece")
		se.Write(b[h:])
		if status != 101 || !accept && !dontCare {
			buf := make([]byte, 256)
			for {
				if _, err := se.Read(buf); err != nil {
					return
				}
			}
		}
		// behave like a WebSocket server: answer pings, echo data, echo close
		peer := NewRawPeer(r, se, "srv.raw", false, uint32(n))
		peer.rx = nil
		if br.Buffered() > 0 {
			pre, _ := br.Peek(br.Buffered())
			peer.rx = append(peer.rx, pre...)
			peer.parse()
		}
		seen := 0
		deflate := ev.val != "" && mode != websocket.CompressionDisabled
		dec := &wsref.Decoder{ExpectMasked: true, Deflate: deflate, Takeover: !(ev.cnct || mode == websocket.CompressionNoContextTakeover), KeepGoingAfterClose: true}
		for {
			f := peer.Next(&seen)
			if f == nil {
				return
			}
			for _, e := range dec.Feed(f.Frame) {
				switch e.Kind {
				case wsref.EvViolation:
					serverErr = "client stream violation: " + e.What
					return
				case wsref.EvPing:
					peer.Send(wsref.Frame{Fin: true, Opcode: wsref.OpPong, Payload: e.Payload})
				case wsref.EvMsg:
					if e.InflateErr != nil {
						serverErr = "client message does not inflate: " + e.InflateErr.Error()
					} else if !bytes.Equal(e.Payload, bytes.Repeat([]byte("echo "), 200)) {
						serverErr = fmt.Sprintf("client message arrived as %d bytes, differs from what was written", len(e.Payload))
					}
				case wsref.EvClose:
					peer.Send(wsref.Frame{Fin: true, Opcode: wsref.OpClose, Payload: f.Payload})
				}
			}
		}
	}
	dialN := 0
	var sideRecs []*attemptRec
	tr := &http.Transport{
		DisableKeepAlives: true, // one transport connection per Dial attempt
		DialContext: func(ctx context.Context, network, addr string) (net.Conn, error) {
			ce, se := simrt.Pipe(r.S, fmt.Sprintf("d%d", dialN))
			r.Track(nil, ce, se)
			rec := &attemptRec{ce: ce}
			if ctx.Value(c13SideKey{}) != nil {
				// the concurrent side dial: only its request is looked at
				sideRecs = append(sideRecs, rec)
			} else {
				recs = append(recs, rec)
			}
			n := dialN
			dialN++
			r.S.Go(fmt.Sprintf("srv%d", n), func() { serve(se, rec, n) })
			return ce, nil
		},
	}
	hc := &http.Client{Transport: tr}
	if clientTimeout {
		hc.Timeout = 5 * time.Second
	}
	opts := &websocket.DialOptions{HTTPClient: hc, Subprotocols: subs, CompressionMode: mode, HTTPHeader: http.Header{}}
	if hostOverride {
		opts.Host = "override.example"
	}
	switch extraHdr {
	case 1:
		opts.HTTPHeader.Set("X-Custom", "custom-value")
		opts.HTTPHeader.Set("Authorization", "Bearer token")
		// several values under one key (cookie lines, a forwarding chain): every one
		// of them is the caller's header and has to reach the wire, in order
		opts.HTTPHeader["Cookie"] = []string{"a=1", "b=2", "c=3"}
		opts.HTTPHeader.Add("X-Forwarded-For", "10.0.0.1")
		opts.HTTPHeader.Add("X-Forwarded-For", "10.0.0.2")
	case 2:
		opts.HTTPHeader.Set("X-Custom", "custom-value")
		opts.HTTPHeader.Set("Connection", "keep-alive")
		opts.HTTPHeader.Set("Sec-WebSocket-Version", "8")
		// (a caller's own handshake headers must not end up next to Dial's)
		// (only where Dial has a value of its own to put there,
		// and not when a later attempt shares this map with other options: there the
		// caller's lines are the only ones)
		if mode != websocket.CompressionDisabled && !varyOpts {
			opts.HTTPHeader.Set("Sec-WebSocket-Extensions", "permessage-deflate; client_max_window_bits")
		}
		if len(subs) > 0 && !varyOpts {
			opts.HTTPHeader.Set("Sec-WebSocket-Protocol", "callers-own")
		}
		opts.HTTPHeader.Set("Sec-WebSocket-Key", "Y2FsbGVycy1vd24ta2V5IQ==")
	}
	type dialRes struct {
		c                *websocket.Conn
		err              error
		took             time.Duration
		pingErr, echoErr error
		sub              string
	}
	noDeadline := fault == 0 && !clientTimeout && t.Pct(50)
	r.D("no_deadline", noDeadline)
	var results []dialRes
	r.S.Go("dialer", func() {
		for i := 0; i < attempts; i++ {
			r.S.Park("a.dialer")
			ctx, cancel := context.WithTimeout(context.Background(), 10*time.Second)
			if noDeadline {
				// a caller without any deadline: a response Dial refuses must still end
				// the call (the refused response's body may never end)
				ctx, cancel = context.WithCancel(context.Background())
			}
			start := r.S.Now()
			o := opts
			if i > 0 && varyOpts {
				// the same caller-owned header map, other options: what this attempt
				// offers must follow ITS options, not what an earlier Dial left behind
				o2 := *opts
				o2.Subprotocols = nil
				o2.CompressionMode = websocket.CompressionDisabled
				o = &o2
			}
			c, _, err := websocket.Dial(ctx, "ws://sim.test/path?q=1", o)
			dr := dialRes{c: c, err: err, took: r.S.Now() - start}
			if c != nil {
				r.Track(c)
				dr.sub = c.Subprotocol()
				rctx := c.CloseRead(ctx)
				_ = rctx
				dr.pingErr = c.Ping(ctx)
				// CloseRead is active: check an echo through a second connection-less path is not possible,
				// so only a compressible write is sent and verified by the server side.
				dr.echoErr = c.Write(ctx, websocket.MessageText, bytes.Repeat([]byte("echo "), 200))
				c.Close(websocket.StatusNormalClosure, "")
			}
			cancel()
			results = append(results, dr)
		}
		tr.CloseIdleConnections()
	})
	// a second caller dials at the same time with options of its own (another
	// goroutine of the application, the same http.Client): whatever the
	// response, its request must carry a key of its own
	sideDial := t.Pct(30)
	r.DrawYields()
	if sideDial {
		r.S.Go("dialer2", func() {
			for k := t.Draw(3); k > 0; k-- {
				r.S.Park("a.dialer2")
			}
			ctx, cancel := context.WithTimeout(context.WithValue(context.Background(), c13SideKey{}, true), 10*time.Second)
			defer cancel()
			c, _, _ := websocket.Dial(ctx, "ws://sim.test/side", &websocket.DialOptions{HTTPClient: hc})
			if c != nil {
				r.Track(c)
				c.CloseNow()
			}
			r.S.Count("probe.concurrent-dial")
		})
	}
	r.S.Loop()
	if r.S.Aborted != "" {
		if r.S.Aborted == "sim-time" {
			r.Violate("stuck", sig, "Dial did not finish: parked=%v", r.S.ParkedIDs())
		}
		return
	}
	// ---- request side
	keys := map[string]bool{}
	for _, rec := range sideRecs {
		if rec.reqHdr == nil {
			continue
		}
		kb, err := base64.StdEncoding.DecodeString(rec.key)
		if err != nil || len(kb) != 16 {
			r.Violate("request-key", sig+",request,side-dial", "concurrent Dial: Sec-WebSocket-Key %q is not base64 of 16 bytes", rec.key)
		}
		keys[rec.key] = true
	}
	for i, rec := range recs {
		if rec.reqHdr == nil {
			continue
		}
		s2 := sig + ",request"
		if !strings.HasPrefix(rec.reqLine, "GET /path?q=1 HTTP/1.1") {
			r.Violate("request-line", s2, "attempt %d: request line %q", i, rec.reqLine)
		}
		h := rec.reqHdr
		if !headerHasToken(h, "Connection", "upgrade") || !headerHasToken(h, "Upgrade", "websocket") || h.Get("Sec-Websocket-Version") != "13" || len(h.Values("Sec-Websocket-Version")) != 1 {
			r.Violate("request-headers", s2, "attempt %d: handshake headers malformed: Connection=%q Upgrade=%q Version=%q", i, h.Values("Connection"), h.Values("Upgrade"), h.Values("Sec-Websocket-Version"))
		}
		kb, err := base64.StdEncoding.DecodeString(rec.key)
		if err != nil || len(kb) != 16 || len(h.Values("Sec-Websocket-Key")) != 1 {
			r.Violate("request-key", s2, "attempt %d: Sec-WebSocket-Key %q is not base64 of 16 bytes", i, rec.key)
		}
		if keys[rec.key] {
			r.Violate("request-key-reused", s2, "attempt %d reuses Sec-WebSocket-Key %q", i, rec.key)
		}
		keys[rec.key] = true
		aSubs, aMode := subs, mode
		if i > 0 && varyOpts {
			aSubs, aMode = nil, websocket.CompressionDisabled
		}
		wantProto := strings.Join(aSubs, ",")
		gotProto := strings.ReplaceAll(strings.Join(h.Values("Sec-Websocket-Protocol"), ","), " ", "")
		if gotProto != wantProto {
			r.Violate("request-subprotocols", s2, "attempt %d: offered subprotocols %q, options say %q", i, gotProto, wantProto)
		}
		wantExt := ""
		switch aMode {
		case websocket.CompressionContextTakeover:
			wantExt = "permessage-deflate"
		case websocket.CompressionNoContextTakeover:
			wantExt = "permessage-deflate;client_no_context_takeover;server_no_context_takeover"
		}
		if g := strings.ReplaceAll(strings.Join(h.Values("Sec-Websocket-Extensions"), "\n"), " ", ""); g != wantExt {
			r.Violate("request-extensions", s2, "attempt %d: extension offer %q, mode %d wants %q", i, g, aMode, wantExt)
		}
		wantHost := "sim.test"
		if hostOverride {
			wantHost = "override.example"
		}
		if rec.host != wantHost {
			r.Violate("request-host", s2, "attempt %d: Host %q, want %q", i, rec.host, wantHost)
		}
		if extraHdr == 1 {
			if got := h.Values("Cookie"); strings.Join(got, "|") != "a=1|b=2|c=3" {
				r.Violate("request-caller-header", s2+",multi-value", "attempt %d: the caller's three Cookie values arrived as %q", i, got)
			}
			if got := h.Values("X-Forwarded-For"); strings.Join(got, "|") != "10.0.0.1|10.0.0.2" {
				r.Violate("request-caller-header", s2+",multi-value", "attempt %d: the caller's two X-Forwarded-For values arrived as %q", i, got)
			}
			if h.Get("Authorization") != "Bearer token" {
				r.Violate("request-caller-header", s2, "attempt %d: caller header Authorization = %q", i, h.Get("Authorization"))
			}
		}
		if extraHdr > 0 && h.Get("X-Custom") != "custom-value" {
			r.Violate("request-caller-header", s2, "attempt %d: caller header X-Custom = %q", i, h.Get("X-Custom"))
		}
		if extraHdr == 1 && h.Get("Authorization") != "Bearer token" {
			r.Violate("request-caller-header", s2, "attempt %d: caller header Authorization = %q", i, h.Get("Authorization"))
		}
	}
	// ---- response side
	for i, dr := range results {
		if (dr.c == nil) == (dr.err == nil) {
			r.Violate("conn-xor-error", sig, "attempt %d: Dial returned conn=%v err=%v", i, dr.c != nil, dr.err)
			continue
		}
		if dontCare || i > 0 && varyOpts {
			// (the varied attempt is there for the request side only)
			continue
		}
		if accept && dr.c == nil {
			r.Violate("valid-response-rejected", sig+fmt.Sprintf(",c=%d,u=%d,p=%d,e=%d,m=%d", ci, ui, pi, ei, mode), "attempt %d: a valid response (Connection %q, Upgrade %q, protocol %s, extensions %q, mode %d) was rejected: %v", i, cv.val, uv.val, c13Proto[pi], ev.val, mode, dr.err)
			continue
		}
		if !accept && dr.c != nil {
			r.Violate("invalid-response-accepted", sig+fmt.Sprintf(",s=%d,c=%d,u=%d,a=%d,p=%d,e=%d,m=%d", status, ci, ui, ai, pi, ei, mode), "attempt %d: Dial returned a connection for status %d, Connection %q, Upgrade %q, accept-key %s, protocol %s, extensions %q, client mode %d", i, status, cv.val, uv.val, c13Accept[ai], c13Proto[pi], ev.val, mode)
			continue
		}
		if accept {
			wantSub := ""
			if pi == 1 {
				wantSub = subs[0]
			}
			if dr.sub != wantSub {
				r.Violate("subprotocol", sig, "attempt %d: Subprotocol() = %q, negotiated %q", i, dr.sub, wantSub)
			}
			if dr.pingErr != nil || dr.echoErr != nil {
				r.Violate("connection-unusable", sig, "attempt %d: ping err %v, write err %v after a successful handshake", i, dr.pingErr, dr.echoErr)
			}
			r.S.Count("probe.dial-accepted")
		} else {
			if fault == 2 {
				limit := 10 * time.Second
				if clientTimeout {
					limit = 5 * time.Second
				}
				if dr.took > limit+time.Second || dr.took < limit {
					r.Violate("stalled-dial-timing", sig, "attempt %d: response stalled; Dial returned after %v, its context/timeout ends at %v", i, dr.took, limit)
				}
			}
			if i < len(recs) && !recs[i].ce.Closed() {
				r.Violate("transport-left-open", sig, "attempt %d: handshake rejected (%v) but the client side of the transport connection is still open", i, dr.err)
			}
		}
	}
	if serverErr != "" {
		r.Violate("client-frames", sig, "%s", serverErr)
	}
}
