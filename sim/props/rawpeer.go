package props

import (
	"io"
	"time"

	"verifsim/simrt"
	"verifsim/wsref"
)

// RxFrame is a frame the library emitted, stamped with when its last byte
// was seen by the raw peer.
type RxFrame struct {
	wsref.Frame
	Step int
	At   time.Duration
}

// RawPeer is a scripted endpoint that is not the library: it speaks through
// simnet using only the reference codec.
type RawPeer struct {
	r        *Run
	E        *simrt.End
	Name     string
	IsClient bool // the raw side plays the client role (masks its frames)
	rng      *simrt.LocalRNG

	rx     []byte
	off    int
	Frames []RxFrame
	EOF    bool
	Err    error
	// ParseErr is set when the library emitted bytes that do not parse.
	ParseErr error
	Partial  *wsref.Frame // incomplete trailing frame at EOF, if any
	// Hold, if set, makes the peer stop reading while it returns true (a
	// peer that does not drain its receive buffer). Evaluated with the
	// simulator lock held.
	Hold func() bool
}

// NewRawPeer wraps the raw end of a lib-vs-raw connection.
func NewRawPeer(r *Run, e *simrt.End, name string, isClient bool, seed uint32) *RawPeer {
	e.Fast = true
	return &RawPeer{r: r, E: e, Name: name, IsClient: isClient, rng: simrt.NewLocalRNG(uint64(seed) + 77)}
}

// Key returns a fresh masking key.
func (p *RawPeer) Key() [4]byte {
	v := p.rng.Next()
	return [4]byte{byte(v), byte(v >> 8), byte(v >> 16), byte(v >> 24)}
}

// Prepare fills in masking for the raw side's role unless the frame was
// marked explicitly (wrong-masking injections set Masked themselves and pass
// keep=true).
func (p *RawPeer) Prepare(f wsref.Frame, keep bool) wsref.Frame {
	if !keep {
		f.Masked = p.IsClient
	}
	if f.Masked && f.Key == [4]byte{} {
		f.Key = p.Key()
	}
	return f
}

// Encode serialises frames for this peer's role.
func (p *RawPeer) Encode(fs ...wsref.Frame) []byte {
	var b []byte
	for _, f := range fs {
		b = wsref.AppendFrame(b, p.Prepare(f, false))
	}
	return b
}

// Send writes frames through the transport (one scheduler step).
func (p *RawPeer) Send(fs ...wsref.Frame) error {
	_, err := p.E.Write(p.Encode(fs...))
	return err
}

// SendBytes writes raw bytes.
func (p *RawPeer) SendBytes(b []byte) error {
	_, err := p.E.Write(b)
	return err
}

// Inject preloads bytes without parking.
func (p *RawPeer) Inject(b []byte) { p.E.Inject(b) }

func (p *RawPeer) parse() {
	for p.ParseErr == nil {
		f, ok, _, err := wsref.ParseFrame(p.rx, p.off)
		if err != nil {
			p.ParseErr = err
			return
		}
		if !ok {
			return
		}
		p.off = f.End
		p.Frames = append(p.Frames, RxFrame{Frame: f, Step: p.r.S.Step(), At: p.r.S.Now()})
	}
}

// readMore performs one transport read.
func (p *RawPeer) readMore() bool {
	if p.EOF || p.Err != nil {
		return false
	}
	if p.Hold != nil && p.E.RGate == nil {
		p.E.RGate = func() bool { return !p.Hold() }
	}
	buf := make([]byte, 1<<16)
	n, err := p.E.Read(buf)
	p.rx = append(p.rx, buf[:n]...)
	if err == io.EOF {
		p.EOF = true
	} else if err != nil {
		p.Err = err
	}
	p.parse()
	if p.EOF || p.Err != nil {
		if p.off < len(p.rx) {
			f, _, hdr, _ := wsref.ParseFrame(p.rx, p.off)
			if hdr {
				p.Partial = &f
			} else {
				p.Partial = &wsref.Frame{Start: p.off}
			}
		}
		return false
	}
	return true
}

// Next returns the next frame the library emitted (blocking), or nil at the
// end of the stream.
func (p *RawPeer) Next(seen *int) *RxFrame {
	for *seen >= len(p.Frames) {
		if !p.readMore() {
			if *seen >= len(p.Frames) {
				return nil
			}
			break
		}
	}
	f := &p.Frames[*seen]
	*seen++
	return f
}

// Drain reads until the library closes the transport (or errors).
func (p *RawPeer) Drain() {
	for p.readMore() {
	}
}

// RxBytes is everything received so far.
func (p *RawPeer) RxBytes() []byte { return p.rx }

// TrailingGarbage reports bytes after the last complete frame.
func (p *RawPeer) TrailingGarbage() int { return len(p.rx) - p.off }
