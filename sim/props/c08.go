package props

import (
	"bytes"
	"context"
	"fmt"
	"io"
	"runtime"
	"sync"
	"time"

	"nhooyr.io/websocket"
	"nhooyr.io/websocket/wsjson"

	"verifsim/simrt"
	"verifsim/wsref"
)

// C08 — read limit and memory bounds hold for every sender.

func init() {
	register(&Prop{ID: "C08", Run: runC08, Quick: 5000, Thorough: 300000, Level: "exploration"})
}

var c08Limits = []int64{-2, 0, 1, 125, 126, 4096, 65536, 1 << 20, -1} // -2 = leave the default (32768)

var (
	bombOnce sync.Once
	bombWire []byte // 8 MiB of zeros, raw DEFLATE without the 00 00 ff ff tail
)

const bombLen = 8 << 20

func bomb() []byte {
	bombOnce.Do(func() {
		d := &wsref.Deflater{Level: 9}
		bombWire = d.Compress(make([]byte, bombLen), nil, false)
	})
	return bombWire
}

func runC08(r *Run) {
	t := r.Tape
	o := RawOpts{LibClient: t.Draw(2) == 1, Mode: modes[t.Draw(3)], Ext: extChoices[t.Draw(len(extChoices))]}
	rc, err := r.newRawConn("c0", o)
	if err != nil {
		r.Violate("handshake-failed", "raw", "%v", err)
		return
	}
	c, peer := rc.C, rc.Peer
	api := t.Weighted(3, 3, 2, 2) // 0 Read, 1 Reader small buffer, 2 wsjson.Read, 3 NetConn.Read
	limIdx := t.Draw(len(c08Limits))
	lim := c08Limits[limIdx]
	eff := lim // effective limit
	if lim == -2 {
		eff = 32768
	}
	// 0 ordinary messages, 1 compression bomb, 2 huge declared length, 3 megabytes of
	// payload after the final DEFLATE block of a compressed message
	special := t.Weighted(12, 2, 2, 2)
	if (special == 1 || special == 3) && (!rc.Neg.Deflate || api == 2) {
		special = 0 // (the bomb is not a JSON document)
	}
	nMsgs := 1 + t.Draw(3)
	bufSize := []int{1, 7, 512, 4096}[t.Draw(4)]
	if special == 1 {
		bufSize = 4096 // 8 MiB through a 1-byte buffer would only burn time
	}
	var comp *wsref.Deflater
	if rc.Neg.Deflate {
		comp = &wsref.Deflater{Takeover: rc.PeerTake}
	}
	typ := byte(wsref.OpText)
	if api != 2 && t.Draw(2) == 1 {
		typ = wsref.OpBinary
	}
	if lim != -2 {
		c.SetReadLimit(lim)
	}
	var nc io.Reader
	if api == 3 {
		nc = websocket.NetConn(context.Background(), c, websocket.MessageType(typ))
		eff = -1 // NetConn disables the limit
	}
	type planned struct {
		bfinal  bool
		size    int
		over    bool
		data    []byte
		newLim  int64 // limit change after this message (-3 = none)
		comp    bool
		special int
	}
	var plan []planned
	var stream []byte
	var pieces [][]byte
	mkJSON := func(n int, seed uint32) []byte {
		if n < 2 {
			n = 2
		}
		b := make([]byte, n)
		b[0], b[n-1] = '"', '"'
		for i := 1; i < n-1; i++ {
			b[i] = 'a' + byte((i+int(seed))%26)
		}
		if seed%3 == 2 && n > 40 {
			// a short value followed by insignificant white space up to the same
			// length (still one valid JSON document of n bytes: the limit counts bytes)
			b[9] = '"'
			for i := 10; i < n; i++ {
				b[i] = ' '
			}
		}
		return b
	}
	cur := eff
	for i := 0; i < nMsgs; i++ {
		var p planned
		p.newLim = -3
		if cur >= 0 {
			switch t.Weighted(3, 3, 3, 1, 1, 2) {
			case 0:
				p.size = int(cur) - 1
			case 1:
				p.size = int(cur)
			case 2:
				p.size = int(cur) + 1
			case 3:
				p.size = int(cur) * 2
			case 4:
				p.size = int(cur)*10 + 5
			default:
				p.size = t.Draw(int(cur) + 2)
			}
			if p.size < 0 {
				p.size = 0
			}
			if p.size > 3<<20 {
				p.size = 3 << 20
			}
			if api == 1 && bufSize < 512 && p.size > 70000 {
				p.size = 70000 // a megabyte through a 1-byte buffer only burns time
			}
			p.over = int64(p.size) > cur
		} else {
			p.size = []int{0, 1, 32768, 32769, 70000, 300000}[t.Draw(6)]
		}
		if api == 2 && p.size < 2 {
			p.size = 2
			p.over = cur >= 0 && int64(p.size) > cur
		}
		if api == 2 {
			p.data = mkJSON(p.size, uint32(i))
		} else {
			p.data = Payload{Kind: []int{3, 1, 2}[t.Draw(3)], Len: p.size, Seed: uint32(i + 1)}.Bytes()
		}
		p.comp = comp != nil && t.Draw(2) == 1
		if special == 1 && rc.PeerTake {
			p.comp = false // the bomb is compressed without history: it must be the first compressed message
		}
		// some senders end a compressed message with a BFINAL=1 block (RFC 7692 7.2.3.4)
		bfinal := p.comp && t.Pct(25)
		fs := MessageFrames(MsgSpec{Typ: typ, Data: p.data, Compress: p.comp, BFinal: bfinal, Frags: SplitFrags(t, p.size)}, comp)
		p.bfinal = bfinal
		enc := peer.Encode(fs...)
		stream = append(stream, enc...)
		pieces = append(pieces, enc)
		if !p.over && i < nMsgs-1 && api != 3 && t.Pct(30) {
			p.newLim = []int64{0, 100, 5000, 70000, -1}[t.Draw(5)]
			cur = p.newLim
		}
		plan = append(plan, p)
		if p.over {
			break
		}
	}
	last := plan[len(plan)-1]
	switch special {
	case 1:
		if !last.over {
			// a compressed message of 8 MiB of zeros (ratio > 1000:1)
			p := planned{size: bombLen, special: 1, comp: true, newLim: -3}
			p.over = cur >= 0 && int64(p.size) > cur
			wire := bomb()
			fs := []wsref.Frame{{Fin: true, Rsv1: true, Opcode: typ, Payload: wire}}
			stream = append(stream, peer.Encode(fs...)...)
			plan = append(plan, p)
		}
	case 2:
		if !last.over {
			// a frame that declares up to 2^63-1 bytes, followed by a few KiB and EOF/stall
			p := planned{size: 3000 + t.Draw(6000), special: 2, newLim: -3}
			p.data = Payload{Kind: 2, Len: p.size, Seed: 99}.Bytes()
			p.over = true
			declared := []uint64{1<<63 - 1, 1 << 40, 1 << 32}[t.Draw(3)]
			f := wsref.Frame{Fin: true, Opcode: typ, Payload: p.data, DeclareLen: declared, ForceEnc: 2}
			stream = append(stream, peer.Encode(f)...)
			plan = append(plan, p)
		}
	case 3:
		if !last.over {
			// a compressed message whose DEFLATE stream ends with a final block; the same
			// message goes on for another 4 MiB, which the library has to skip (the next
			// message starts behind it) without keeping it
			p := planned{size: 100, special: 3, comp: true, bfinal: true, newLim: -3}
			if cur >= 0 && int64(p.size) > cur {
				p.size = int(cur)
			}
			p.data = Payload{Kind: 3, Len: p.size, Seed: 98}.Bytes()
			fs := MessageFrames(MsgSpec{Typ: typ, Data: p.data, Compress: true, BFinal: true, Frags: []int{p.size}}, comp)
			fs[len(fs)-1].Fin = false
			junk := Payload{Kind: 2, Len: 65536, Seed: 97}.Bytes()
			for k := 0; k < 64; k++ {
				fs = append(fs, wsref.Frame{Fin: k == 63, Opcode: wsref.OpCont, Payload: junk})
			}
			stream = append(stream, peer.Encode(fs...)...)
			plan = append(plan, p)
		}
	}
	endEOF := t.Draw(2) == 1
	if special == 3 {
		endEOF = true
	}
	// asyncLimit: the limit is changed by another goroutine while the reader is
	// already blocked waiting for the next message (which then arrives)
	asyncLimit := special == 0 && t.Pct(30)
	// concWriter: the application keeps writing small messages from another
	// goroutine through a pipe of 8 bytes, so that every frame - the 1009 Close
	// frame too - takes several transport writes, with Write calls starting and
	// failing while it is on its way. It must still arrive.
	concWriter := special == 0 && !asyncLimit && api <= 1 && plan[len(plan)-1].over && t.Pct(40)
	if concWriter {
		rc.Lib.Out().Cap = 8
		rc.Lib.Out().HardCap = true
		r.S.Count("probe.writes-concurrent-with-the-1009-close")
	}
	// writerStalled: in addition the peer stops reading altogether, so the
	// application's Write stays in the transport with the frame lock for good and
	// the 1009 Close frame cannot even be started (the library gives up on it after
	// 5 s). Whatever happens then, the over-limit message must not be continued:
	// the application reads again and must get errors, never bytes.
	writerStalled := concWriter && t.Pct(40)
	if writerStalled {
		peer.Hold = func() bool { return !rc.Lib.ClosedLocked() }
		r.S.Count("probe.limit-hit-while-the-writer-is-stalled-for-good")
		// The over-limit message is re-encoded as one frame whose payload, behind the
		// limit+1 bytes that may be handed over, looks on the wire like three complete
		// text frames: an endpoint that went on parsing there would deliver them.
		if li := len(plan) - 1; !plan[li].comp && eff >= 0 && cur >= 0 && int64(plan[li].size) > cur {
			lp := &plan[li]
			inner := peer.Encode(wsref.Frame{Fin: true, Opcode: wsref.OpText, Payload: []byte("bytes of the over-limit message delivered as a message")})
			wire := append(append(append([]byte{}, inner...), inner...), inner...)
			head := append([]byte{}, lp.data[:cur+1]...)
			outer := wsref.Frame{Fin: true, Opcode: typ}
			if peer.IsClient {
				outer.Masked, outer.Key = true, peer.Key()
				for j := range wire {
					wire[j] ^= outer.Key[(len(head)+j)%4]
				}
			}
			lp.data = append(head, wire...)
			lp.size = len(lp.data)
			outer.Payload = lp.data
			enc := wsref.AppendFrame(nil, peer.Prepare(outer, true))
			stream = append(stream[:len(stream)-len(pieces[li])], enc...)
			pieces[li] = enc
			r.S.Count("probe.frames-embedded-behind-the-limit")
		}
	}
	var rereads []string
	// ctxEnds: the peer takes nothing for 2 s, so the 1009 Close frame waits in the
	// transport, and the context of the Read that hit the limit ends after 1 s,
	// while that frame is on its way. That read is over: its context must not cut
	// the Close frame off.
	ctxEnds := special == 0 && !asyncLimit && !concWriter && api <= 1 && plan[len(plan)-1].over && eff >= 0 && t.Pct(30)
	if ctxEnds {
		holdPeer := true
		peer.Hold = func() bool { return holdPeer && !rc.Lib.ClosedLocked() }
		rc.Lib.Out().Cap = 0
		rc.Lib.Out().HardCap = true
		time.AfterFunc(2*time.Second, func() {
			holdPeer = false
			rc.Lib.Out().Cap = 1 << 30
			r.S.Kick()
		})
		r.S.Count("probe.read-context-ends-while-the-1009-close-is-being-written")
	}
	rc.Lib.In().RChunk = t.Weighted(5, 0, 1, 2, 3)
	rc.Lib.In().OpBudget = 1500
	r.S.Stick = []int{0, 60}[t.Draw(2)]
	r.S.MaxSteps = 60000
	apiName := []string{"Read", "Reader", "wsjson", "NetConn"}[api]
	sig := fmt.Sprintf("api=%s,special=%d", apiName, special)
	r.Class = fmt.Sprintf("%s/lim%d/cli%v/d%v", sig, limIdx, o.LibClient, rc.Neg.Deflate)
	r.D("role_lib_client", o.LibClient)
	r.D("ext", o.Ext)
	r.D("api", apiName)
	r.D("limit", lim)
	var pd []string
	for _, p := range plan {
		pd = append(pd, fmt.Sprintf("size=%d over=%v comp=%v bfinal=%v special=%d newlim=%d", p.size, p.over, p.comp, p.bfinal, p.special, p.newLim))
	}
	r.D("plan", pd)
	r.Nontrivial = true

	type res struct {
		data     []byte
		err      error
		complete bool
	}
	var results []res
	if !asyncLimit {
		peer.Inject(stream)
		if endEOF {
			rc.Raw.CloseWrite()
		}
	} else {
		sig += ",async-limit"
		r.S.Go("feeder", func() {
			for i := range plan {
				if i > 0 {
					r.S.ParkE("a.feeder", func() bool { return len(results) >= i && (rc.Lib.InReadLocked() || rc.Lib.ClosedLocked()) }, nil)
					if plan[i-1].newLim != -3 {
						c.SetReadLimit(plan[i-1].newLim)
						r.S.Count("probe.limit-changed-while-reader-waits")
					}
				}
				peer.Inject(pieces[i])
			}
			if endEOF {
				rc.Raw.CloseWrite()
			}
		})
	}
	stream = nil
	var ms0, ms1 runtime.MemStats
	delivered := 0
	r.S.Go("reader", func() {
		defer c.CloseNow()
		bg := context.Background()
		buf := make([]byte, bufSize)
		runtime.ReadMemStats(&ms0)
		for i, p := range plan {
			var rs res
			bg := bg
			if ctxEnds && i == len(plan)-1 {
				var cancel context.CancelFunc
				bg, cancel = context.WithTimeout(bg, time.Second)
				defer cancel()
			}
			switch api {
			case 0:
				_, rs.data, rs.err = c.Read(bg)
				rs.complete = rs.err == nil
			case 1:
				_, rd, e := c.Reader(bg)
				rs.err = e
				if p.special == 0 {
					rs.data = make([]byte, 0, p.size+16)
				}
				for e == nil {
					var n int
					n, e = rd.Read(buf)
					if p.special == 0 || len(rs.data) < 1<<16 {
						rs.data = append(rs.data, buf[:n]...)
					} else {
						// do not materialise the bomb: count only
						delivered += n
					}
					if e == io.EOF {
						rs.complete = true
					} else if e != nil {
						rs.err = e
					}
				}
			case 2:
				var v string
				rs.err = wsjson.Read(bg, c, &v)
				rs.complete = rs.err == nil
				if rs.complete {
					rs.data = []byte(`"` + v + `"`)
				}
			default:
				// byte stream: read exactly this message's bytes
				want := p.size
				for len(rs.data) < want || want == 0 && p.special == 0 && false {
					n, e := nc.Read(buf)
					if p.special == 1 && len(rs.data) >= 1<<16 {
						delivered += n
						want -= n
					} else {
						rs.data = append(rs.data, buf[:n]...)
					}
					if e != nil {
						rs.err = e
						break
					}
				}
				rs.complete = rs.err == nil
			}
			delivered += len(rs.data)
			results = append(results, rs)
			if rs.err != nil {
				if writerStalled {
					for k := 0; k < 3; k++ {
						r.S.Park("a.reader.again")
						typ, d, e := c.Read(bg)
						if e == nil {
							rereads = append(rereads, fmt.Sprintf("read %d after the failed one returned a %v message of %d bytes (%q...)", k+1, typ, len(d), clipB(d, 24)))
						}
					}
				}
				break
			}
			if p.newLim != -3 && !asyncLimit {
				c.SetReadLimit(p.newLim)
			}
			_ = i
		}
		runtime.ReadMemStats(&ms1)
	})
	if concWriter {
		r.S.Go("appwriter", func() {
			for i := 0; i < 200; i++ {
				r.S.Park("a.appwriter")
				if err := c.Write(context.Background(), websocket.MessageText, []byte{'w'}); err != nil {
					return
				}
			}
		})
	}
	r.S.Go("peer", func() { peer.Drain() })
	r.S.Loop()
	if r.S.Aborted != "" {
		if r.S.Aborted == "sim-time" {
			// a huge declared length with a stalled transport legitimately blocks a read
			// that has no context deadline; only flag it when the stream had ended.
			if endEOF {
				r.Violate("stuck", sig, "reader did not finish on a finite stream: parked=%v", r.S.ParkedIDs())
			} else if lp := plan[len(plan)-1]; lp.special == 2 && api != 3 && cur >= 0 && int64(lp.size) > cur+1 && len(results) == len(plan)-1 {
				// ... but not once more than limit+1 bytes of the message have arrived: from
				// then on the read has everything it needs to fail and to send its 1009,
				// whatever the sender does with the rest of the frame
				r.Violate("over-limit-read-waits-for-the-rest", sig, "a frame declaring a huge length delivered %d payload bytes (limit %d) and then stalled: the read of that message never failed (it waits for bytes it would not deliver): parked=%v", lp.size, cur, r.S.ParkedIDs())
			}
		}
		return
	}
	if writerStalled {
		sig += ",writer-stalled"
		if len(results) > 0 && results[len(results)-1].err != nil && len(rereads) > 0 {
			r.Violate("read-continues-after-limit", sig, "after the read of the over-limit message had failed (%v) the connection went on delivering: %s", results[len(results)-1].err, rereads[0])
			return
		}
	}
	// ---- limits
	var allowance int64 // bytes the library may legitimately have buffered
	curLim := eff
	for i, rs := range results {
		p := plan[i]
		over := curLim >= 0 && int64(p.size) > curLim
		if p.special == 3 {
			// (what a message with bytes behind its final DEFLATE block decodes to is
			// not prescribed; it must end, and must not cost memory)
			allowance += int64(p.size)
			continue
		}
		if p.special == 2 {
			over = true
			if api == 3 {
				// NetConn is a byte stream without a limit: the bytes that
				// arrived are simply delivered
				if !bytes.HasPrefix(p.data, rs.data) {
					r.Violate("payload-mismatch", sig, "NetConn delivered bytes that are not a prefix of the frame payload")
				}
				continue
			}
		}
		if curLim >= 0 && int64(p.size) > curLim+1 {
			allowance += curLim + 1
		} else {
			allowance += int64(p.size)
		}
		s2 := fmt.Sprintf("%s,over=%v", sig, over)
		if p.bfinal {
			s2 += ",bfinal"
		}
		if !over {
			if !rs.complete {
				r.Violate("within-limit-not-delivered", s2, "message %d of %d bytes (limit %d) was not delivered: %v", i, p.size, curLim, rs.err)
				return
			}
			if p.special == 1 {
				if len(rs.data)+0 > bombLen {
					r.Violate("payload-mismatch", s2, "bomb message longer than sent")
				}
			} else if k := firstDiff(rs.data, c08Want(api, p.data)); k >= 0 {
				r.Violate("payload-mismatch", s2, "message %d differs at byte %d (got %d bytes, sent %d)", i, k, len(rs.data), len(p.data))
				return
			}
		} else {
			if rs.complete {
				r.Violate("over-limit-reported-complete", s2, "message %d of %d bytes exceeds the limit %d but was reported complete (%d bytes)", i, p.size, curLim, len(rs.data))
				return
			}
			if p.special != 2 || curLim >= 0 {
				if curLim >= 0 && int64(len(rs.data)) > curLim+1 {
					r.Violate("over-limit-too-many-bytes", s2, "%d bytes of a message exceeding the limit %d were handed to the caller (at most limit+1 allowed)", len(rs.data), curLim)
				}
			}
			if p.special != 1 && api != 2 && !bytes.HasPrefix(p.data, rs.data) {
				r.Violate("over-limit-not-prefix", s2, "bytes handed over for the over-limit message are not a prefix of it")
			}
			// a Close frame with 1009 must have been sent, unless the transport ended first
			if curLim >= 0 && (p.special != 2 || int64(p.size) > curLim) {
				found := false
				for _, f := range peer.Frames {
					if f.Opcode == wsref.OpClose && len(f.Payload) >= 2 && int(f.Payload[0])<<8|int(f.Payload[1]) == 1009 {
						found = true
					}
				}
				if !found && writerStalled {
					// (nothing can be sent: the transport takes no more bytes)
					r.S.Count("probe.1009-impossible-writer-stalled")
				} else if !found {
					r.Violate("no-1009-close", s2, "message %d of %d bytes exceeded the limit %d (error: %v) but no Close frame with status 1009 was sent", i, p.size, curLim, rs.err)
				} else {
					r.S.Count("probe.1009-seen")
				}
			}
		}
		if p.newLim != -3 {
			curLim = p.newLim
		}
	}
	// ---- memory
	alloc := int64(ms1.TotalAlloc - ms0.TotalAlloc)
	if int64(delivered) > allowance {
		allowance = int64(delivered)
	}
	bound := int64(3<<20) + 8*allowance
	if alloc > bound {
		r.Violate("memory-not-bounded", sig, "%d bytes were allocated while receiving, %d bytes were delivered / deliverable under the limit (bound 3 MiB + 8 x that = %d)", alloc, allowance, bound)
	}
	if special != 0 {
		r.S.Count(fmt.Sprintf("probe.special-%d", special))
	}
}

var _ = simrt.ChunkAll

// clipB returns at most n leading bytes of b.
func clipB(b []byte, n int) []byte {
	if len(b) > n {
		return b[:n]
	}
	return b
}

// c08Want is what the reader is expected to hold for a delivered message: the
// payload, or for wsjson the document without its trailing white space.
func c08Want(api int, data []byte) []byte {
	if api == 2 {
		return bytes.TrimRight(data, " ")
	}
	return data
}
