package props

import (
	"bytes"
	"context"
	"errors"
	"fmt"
	"io"
	"time"

	"nhooyr.io/websocket"

	"verifsim/simrt"
	"verifsim/wsref"
)

// C03 — inbound streams decode exactly, violations are rejected, no panic.

func init() {
	register(&Prop{ID: "C03", Run: runC03, Quick: 20000, Thorough: 1000000, Level: "exploration"})
}

var extChoices = []string{
	"",
	"permessage-deflate",
	"permessage-deflate; client_no_context_takeover",
	"permessage-deflate; server_no_context_takeover",
	"permessage-deflate; client_no_context_takeover; server_no_context_takeover",
}

// rawSetup draws role / negotiation and creates the connection.
type rawConn struct {
	C         *websocket.Conn
	Lib, Raw  *simrt.End
	Neg       Negotiated
	Peer      *RawPeer
	Opts      RawOpts
	PeerTake  bool // raw sender may use context takeover
	LibTake   bool // library sender uses context takeover
	PeerIsCli bool
}

func (r *Run) drawRawConn(name string, forceDeflate int) (*rawConn, error) {
	t := r.Tape
	o := RawOpts{LibClient: t.Draw(2) == 1}
	o.Mode = modes[t.Draw(3)]
	o.Ext = extChoices[t.Draw(len(extChoices))]
	if forceDeflate == 1 {
		if o.Mode == websocket.CompressionDisabled {
			o.Mode = websocket.CompressionContextTakeover
		}
		if o.Ext == "" {
			o.Ext = extChoices[1]
		}
	}
	o.Thresh = threshChoices[t.Draw(len(threshChoices))]
	return r.newRawConn(name, o)
}

func (r *Run) newRawConn(name string, o RawOpts) (*rawConn, error) {
	c, lib, raw, neg, err := r.LibVsRaw(name, o)
	if err != nil {
		return nil, err
	}
	rc := &rawConn{C: c, Lib: lib, Raw: raw, Neg: neg, Opts: o, PeerIsCli: !o.LibClient}
	rc.Peer = NewRawPeer(r, raw, name+".raw", rc.PeerIsCli, r.Tape.U32())
	if rc.PeerIsCli {
		rc.PeerTake, rc.LibTake = !neg.CNCT, !neg.SNCT
	} else {
		rc.PeerTake, rc.LibTake = !neg.SNCT, !neg.CNCT
	}
	return rc, nil
}

type gotMsg struct {
	Typ  websocket.MessageType
	Data []byte
}

// readAll reads messages until an error; returns complete messages, the
// partial data of the failing message and the error.
func readAllMsgs(r *Run, c *websocket.Conn, ctx context.Context, api, bufSize int, who string, max int) (msgs []gotMsg, partial []byte, inMsg bool, err error) {
	buf := make([]byte, bufSize)
	for len(msgs) < max {
		r.S.Park("a." + who)
		if api == 0 {
			typ, data, e := c.Read(ctx)
			if e != nil {
				return msgs, data, false, e
			}
			msgs = append(msgs, gotMsg{typ, data})
			continue
		}
		typ, rd, e := c.Reader(ctx)
		if e != nil {
			return msgs, nil, false, e
		}
		var data []byte
		for {
			n, e := rd.Read(buf)
			data = append(data, buf[:n]...)
			if e == io.EOF {
				msgs = append(msgs, gotMsg{typ, data})
				break
			}
			if e != nil {
				return msgs, data, true, e
			}
		}
	}
	return msgs, nil, false, nil
}

func runC03(r *Run) {
	t := r.Tape
	rc, err := r.drawRawConn("c0", 0)
	if err != nil {
		r.Violate("handshake-failed", "raw", "handshake failed: %v", err)
		return
	}
	rawMode := t.Pct(12) // raw byte strings: mutated valid stream / noise
	limitOff := t.Draw(2) == 0
	if rawMode {
		limitOff = true // a mutated compressed message may inflate to anything; the limit is C08's subject
	}
	maxLen := 32768
	if limitOff {
		rc.C.SetReadLimit(-1)
		maxLen = 70000
	}
	var comp *wsref.Deflater
	if rc.Neg.Deflate {
		comp = &wsref.Deflater{Takeover: rc.PeerTake, Level: []int{-1, 1, 9, -2}[t.Draw(4)]}
	}
	// ---- build the script
	var fs []SFrame
	var open []bool // open[i]: message open before frame i
	nItems := 1 + t.Draw(6)
	for i := 0; i < nItems; i++ {
		if t.Pct(25) {
			op := byte(wsref.OpPing)
			if t.Pct(25) {
				op = wsref.OpPong
			}
			fs = append(fs, SFrame{F: wsref.Frame{Fin: true, Opcode: op, Payload: pingPayload(t, "ctl")}})
			open = append(open, false)
			continue
		}
		m := MsgSpec{Typ: byte(1 + t.Draw(2))}
		p := DrawPayload(t, maxLen, 125, 126, 4096)
		m.Data = p.Bytes()
		if comp != nil && t.Pct(65) {
			m.Compress = true
			m.BFinal = t.Pct(12)
			for k := t.Draw(3); k > 0 && len(m.Data) > 1; k-- {
				m.FlushAt = append(m.FlushAt, 1+t.Draw(len(m.Data)-1))
			}
			sortInts(m.FlushAt)
		}
		m.Frags = SplitFrags(t, len(m.Data))
		mf := MessageFrames(m, comp)
		for j, f := range mf {
			fs = append(fs, SFrame{F: f})
			open = append(open, j > 0)
			// interleaved control frames inside fragmented messages
			if j < len(mf)-1 && t.Pct(30) {
				op := byte(wsref.OpPing)
				if t.Pct(30) {
					op = wsref.OpPong
				}
				fs = append(fs, SFrame{F: wsref.Frame{Fin: true, Opcode: op, Payload: pingPayload(t, "mid")}})
				open = append(open, true)
			}
		}
	}
	open = append(open, false) // position after the last frame
	nViol := t.Weighted(5, 4, 1)
	violDesc := []string{}
	for v := 0; v < nViol; v++ {
		kind := violationKinds[t.Draw(len(violationKinds))]
		pos := t.Draw(len(fs) + 1)
		isOpen := open[pos]
		sf := ViolatingFrame(t, kind, isOpen, rc.Neg.Deflate, rc.PeerIsCli)
		fs = append(fs[:pos], append([]SFrame{sf}, fs[pos:]...)...)
		open = append(open[:pos+1], open[pos:]...)
		violDesc = append(violDesc, fmt.Sprintf("%s@%d", sf.Note, pos))
	}
	endKind := t.Weighted(6, 3, 1) // 0 close frame, 1 eof, 2 close inside? (close placed at random position)
	switch endKind {
	case 0:
		code := goodCloseCodes[t.Draw(len(goodCloseCodes))]
		pl := wsref.ClosePayload(code, "bye"[:t.Draw(4)])
		if t.Pct(15) {
			pl = nil
		}
		fs = append(fs, SFrame{F: wsref.Frame{Fin: true, Opcode: wsref.OpClose, Payload: pl}})
	case 2:
		code := goodCloseCodes[t.Draw(len(goodCloseCodes))]
		pos := t.Draw(len(fs) + 1)
		sf := SFrame{F: wsref.Frame{Fin: true, Opcode: wsref.OpClose, Payload: wsref.ClosePayload(code, "mid-close")}}
		fs = append(fs[:pos], append([]SFrame{sf}, fs[pos:]...)...)
	}
	stream, frameEnds := EncodeScript(rc.Peer, fs)
	if rawMode {
		switch t.Draw(3) {
		case 0: // flip bytes
			for k := 1 + t.Draw(3); k > 0 && len(stream) > 0; k-- {
				stream[t.Draw(len(stream))] ^= byte(1 << t.Draw(8))
			}
		case 1: // noise
			n := 1 + t.Draw(300)
			rng := simrt.NewLocalRNG(uint64(t.U32()))
			stream = make([]byte, n)
			for i := range stream {
				stream[i] = byte(rng.Next())
			}
		default: // truncate + garbage tail
			if len(stream) > 0 {
				stream = stream[:t.Draw(len(stream))]
			}
			stream = append(stream, byte(t.Draw(256)), byte(t.Draw(256)))
		}
	}
	ex := Predict(stream, rc.PeerIsCli, rc.Neg.Deflate, rc.PeerTake)
	if rawMode {
		ex = PredictLenient(stream, rc.PeerIsCli, rc.Neg.Deflate, rc.PeerTake)
	}
	if !limitOff {
		// An injected frame can legally extend an open message beyond the read limit
		// the messages were sized for (a continuation labelled "out of order" is in
		// order while a message is open). The reference decoder has no read limit:
		// such a run reads without one (the limit is C08's subject).
		over := len(ex.OpenRaw) > 32000
		for _, m := range ex.Msgs {
			if len(m.Payload) > 32768 {
				over = true
			}
		}
		if over {
			limitOff = true
			rc.C.SetReadLimit(-1)
		}
	}

	useCloseRead := t.Pct(10)
	rapi := t.Draw(2)
	rbuf := readBufSizes[t.Draw(len(readBufSizes))]
	rc.Lib.In().RChunk = t.Weighted(3, 3, 2, 2, 2)
	rc.Lib.In().OpBudget = 2500
	r.S.Stick = []int{0, 60, 90}[t.Draw(3)]
	r.S.MaxSteps = 60000

	r.Class = fmt.Sprintf("cli%v/d%v/t%v/%s/raw%v/cr%v", rc.Opts.LibClient, rc.Neg.Deflate, rc.PeerTake, ex.Terminal, rawMode, useCloseRead)
	r.D("role_lib_client", rc.Opts.LibClient)
	r.D("ext", rc.Opts.Ext)
	r.D("mode", int(rc.Opts.Mode))
	r.D("frames", describeFrames(fs))
	r.D("violations", violDesc)
	r.D("expect", fmt.Sprintf("%d msgs, %d pings, terminal=%s %s code=%d", len(ex.Msgs), len(ex.Pings), ex.Terminal, ex.What, ex.Code))
	r.D("stream_len", len(stream))
	var lens []int
	for _, m := range ex.Msgs {
		lens = append(lens, len(m.Payload))
	}
	r.D("expected_msg_lens", lens)
	r.D("limit_off", limitOff)
	if len(stream) <= 256 {
		r.D("stream_hex", fmt.Sprintf("%x", stream))
	}
	r.Nontrivial = len(stream) > 0
	sig := fmt.Sprintf("cli=%v,deflate=%v,take=%v,term=%s", rc.Opts.LibClient, rc.Neg.Deflate, rc.PeerTake, ex.Terminal)
	if ex.Terminal == "violation" {
		sig += ":" + ex.What
	}

	// the stream may arrive with a long silence at a frame boundary (longer than any
	// per-frame time limit of the library: the reader just keeps waiting)
	pauseAt, pauseFor := -1, time.Duration(0)
	if !rawMode && len(frameEnds) > 1 && t.Pct(25) {
		pauseAt = frameEnds[t.Draw(len(frameEnds)-1)]
		pauseFor = []time.Duration{5500 * time.Millisecond, 20 * time.Second}[t.Draw(2)]
	}
	// (the read that delivers the last bytes may report the end of the stream in the same call)
	rc.Lib.In().ErrWithData = t.Pct(30)
	if pauseAt <= 0 || pauseAt >= len(stream) {
		rc.Peer.Inject(stream)
		rc.Raw.CloseWrite()
	} else {
		r.S.Count("probe.silence-at-frame-boundary")
		rc.Peer.Inject(stream[:pauseAt])
		r.S.Go("feeder", func() {
			r.S.Sleep(pauseFor)
			rc.Peer.Inject(stream[pauseAt:])
			rc.Raw.CloseWrite()
		})
	}

	var msgs []gotMsg
	var partial []byte
	var rerr error
	var inMsg bool
	var afterFailure []gotMsg
	var crCtx context.Context
	readerDone := false
	r.S.Go("reader", func() {
		if useCloseRead {
			crCtx = rc.C.CloseRead(context.Background())
			<-crCtx.Done()
			r.S.Kick()
			readerDone = true
			return
		}
		msgs, partial, inMsg, rerr = readAllMsgs(r, rc.C, context.Background(), rapi, rbuf, "reader", 1000)
		// an application that keeps reading after the failure must not be handed
		// anything: the reference delivers nothing after the first failure
		for k := 0; k < 3 && rerr != nil; k++ {
			ctx, cancel := context.WithTimeout(context.Background(), 2*time.Second)
			more, _, _, e := readAllMsgs(r, rc.C, ctx, rapi, rbuf, "reader.again", 1)
			cancel()
			if len(more) > 0 {
				afterFailure = append(afterFailure, more...)
			}
			if e == nil {
				continue
			}
		}
		readerDone = true
		r.S.Park("a.reader.closenow")
		rc.C.CloseNow()
	})
	r.S.Go("peer", func() {
		rc.Peer.Drain()
	})
	r.S.Loop()
	if r.S.Aborted != "" {
		if r.S.Aborted == "sim-time" {
			r.Violate("stuck", sig, "reader did not terminate on a finite stream: done=%v parked=%v", readerDone, r.S.ParkedIDs())
		}
		return
	}
	if rc.Peer.ParseErr != nil || (rc.Peer.EOF && rc.Peer.TrailingGarbage() > 0 && rc.Peer.Partial != nil && false) {
		r.Violate("emitted-garbage", sig, "library emitted unparsable bytes: %v", rc.Peer.ParseErr)
	}
	// ---- what the library sent
	var pongs [][]byte
	var closes []RxFrame
	for _, f := range rc.Peer.Frames {
		switch f.Opcode {
		case wsref.OpPong:
			pongs = append(pongs, f.Payload)
		case wsref.OpClose:
			closes = append(closes, f)
		case wsref.OpPing:
		default:
			r.Violate("unexpected-frame", sig, "library sent a data frame (opcode %d) although nothing was written", f.Opcode)
		}
	}
	for _, cf := range closes {
		if len(cf.Payload) == 1 || len(cf.Payload) > 125 {
			r.Violate("bad-close-frame", sig, "Close frame payload length %d", len(cf.Payload))
		} else if len(cf.Payload) >= 2 {
			code := int(cf.Payload[0])<<8 | int(cf.Payload[1])
			if !wsref.ValidWireCode(code) {
				r.Violate("bad-close-frame", sig, "Close frame with unsendable code %d", code)
			}
		}
	}
	if useCloseRead {
		// CloseRead answers pings until the first data message or the end.
		// After the first data message it closes with 1008 and keeps answering
		// pings while it waits for the peer's Close, so any longer prefix is
		// legitimate too.
		// (it then discards data frames without message-layer checks, so
		// what it answers after that point is not prescribed).
		if ex.FirstData >= 0 && ex.FirstData <= ex.TermFrame {
			min := ex.PingsBefore
			if len(pongs) < min {
				r.Violate("pong-count", sig, "CloseRead: library sent %d pongs, %d pings preceded the first data frame", len(pongs), min)
				return
			}
			comparePongs(r, sig, pongs[:min], ex.Pings[:min])
			return
		}
		comparePongs(r, sig, pongs, ex.Pings)
		return
	}
	// ---- messages
	if ex.Terminal == "malformed-deflate" {
		// only the messages before the malformed one are prescribed
		r.S.Count("probe.malformed-deflate")
		if len(msgs) < len(ex.Msgs) {
			r.Violate("message-count", sig, "reads returned %d complete messages, %d precede the malformed DEFLATE payload; error %v", len(msgs), len(ex.Msgs), rerr)
			return
		}
		for i := range ex.Msgs {
			if k := firstDiff(msgs[i].Data, ex.Msgs[i].Payload); k >= 0 {
				r.Violate("message-payload", sig, "message %d differs from the reference at byte %d", i, k)
			}
		}
		if len(pongs) < len(ex.Pings) {
			r.Violate("pong-count", sig, "library sent %d pongs, %d pings preceded the malformed message", len(pongs), len(ex.Pings))
		} else {
			comparePongs(r, sig, pongs[:len(ex.Pings)], ex.Pings)
		}
		return
	}
	msgOK := len(msgs) == len(ex.Msgs)
	if len(msgs) != len(ex.Msgs) {
		r.Violate("message-count", sig, "reads returned %d complete messages, reference decoder %d (terminal %s %s); read error: %v", len(msgs), len(ex.Msgs), ex.Terminal, ex.What, rerr)
	}
	for i := 0; i < len(msgs) && i < len(ex.Msgs); i++ {
		if int(msgs[i].Typ) != int(ex.Msgs[i].Type) {
			r.Violate("message-type", sig, "message %d type %d, reference %d", i, msgs[i].Typ, ex.Msgs[i].Type)
		}
		if ex.Msgs[i].InflateErr != nil {
			continue // content of malformed DEFLATE is unspecified
		}
		if k := firstDiff(msgs[i].Data, ex.Msgs[i].Payload); k >= 0 {
			msgOK = false
			r.Violate("message-payload", sig, "message %d differs from the reference at byte %d (got %d bytes, reference %d, compressed=%v)", i, k, len(msgs[i].Data), len(ex.Msgs[i].Payload), ex.Msgs[i].Compressed)
		}
	}
	if rerr == nil {
		r.Violate("no-error-at-end", sig, "reader stopped without an error")
		return
	}
	if len(afterFailure) > 0 {
		r.Violate("message-after-failure", sig, "after the read failed with %v, further reads returned %d message(s), the first with %d bytes %q (terminal %s %s)", rerr, len(afterFailure), len(afterFailure[0].Data), afterFailure[0].Data[:min(len(afterFailure[0].Data), 24)], ex.Terminal, ex.What)
	}
	if ex.Terminal == "violation" {
		// the stream contained no (well-formed) Close frame before the violation:
		// the failure must not be reported as a close by the peer, and a Close
		// frame sent in answer must carry an error status, not a peer-chosen one
		var ce websocket.CloseError
		if errors.As(rerr, &ce) {
			r.Violate("violation-reported-as-close", sig, "the read failed with %v although the stream has no Close frame before its first violation (%s)", rerr, ex.What)
		}
		for _, cf := range closes {
			code := -1
			if len(cf.Payload) >= 2 {
				code = int(cf.Payload[0])<<8 | int(cf.Payload[1])
			}
			switch code {
			case 1002, 1003, 1007, 1008, 1009, 1011:
			default:
				r.Violate("violation-answered-with-wrong-close", sig, "the library answered the violation %s with a Close frame of status %d (payload %x)", ex.What, code, cf.Payload)
			}
		}
	}
	switch ex.Terminal {
	case "close":
		var ce websocket.CloseError
		if ex.TermInMsg {
			// A Close frame between the fragments of a message: the property
			// (and C06) only prescribe how a close is reported at a message
			// boundary; here the read must fail, which it did.
		} else if !errors.As(rerr, &ce) {
			if !ex.DontCareContent {
				r.Violate("close-not-reported", sig, "peer sent Close(%d,%q) but the read failed with %v", ex.Code, ex.Reason, rerr)
			}
		} else if int(ce.Code) != ex.Code || ce.Reason != ex.Reason {
			r.Violate("close-misreported", sig, "peer sent Close(%d,%q), read reported (%d,%q)", ex.Code, ex.Reason, ce.Code, ce.Reason)
		}
		if len(closes) == 0 {
			if !ex.DontCareContent {
				r.Violate("close-not-echoed", sig, "peer's Close(%d) was not echoed; read error: %v; %d messages read", ex.Code, rerr, len(msgs))
			}
		} else {
			want := wsref.ClosePayload(ex.Code, ex.Reason)
			if ex.Code == 1005 {
				want = nil
			}
			if !bytes.Equal(closes[0].Payload, want) && len(msgs) == len(ex.Msgs) {
				r.Violate("close-echo-differs", sig, "peer sent Close(%d,%q), echo payload %x", ex.Code, ex.Reason, closes[0].Payload)
			}
		}
	case "violation":
		var ce websocket.CloseError
		if errors.As(rerr, &ce) && len(msgs) == len(ex.Msgs) {
			r.Violate("violation-as-close", sig, "protocol violation %s reported as a received Close frame (%d)", ex.What, ce.Code)
		}
	}
	// (whether bytes handed over before an error are a true prefix is C04's
	// clause, not this property's)
	_, _ = partial, inMsg
	if msgOK {
		if ex.PongsAtLeast {
			if len(pongs) < len(ex.Pings) {
				r.Violate("pong-count", sig, "library sent %d pongs, at least %d were owed", len(pongs), len(ex.Pings))
				return
			}
			pongs = pongs[:len(ex.Pings)]
		}
		comparePongs(r, sig, pongs, ex.Pings)
	}
}

func comparePongs(r *Run, sig string, got, want [][]byte) {
	if len(got) != len(want) {
		r.Violate("pong-count", sig, "library sent %d pongs, %d pings were received before the end of the stream", len(got), len(want))
		return
	}
	for i := range got {
		if !bytes.Equal(got[i], want[i]) {
			r.Violate("pong-payload", sig, "pong %d payload %q, ping %q", i, got[i], want[i])
			return
		}
	}
	if len(want) > 0 {
		r.S.Count("probe.pongs-checked")
	}
}

func describeFrames(fs []SFrame) []string {
	var out []string
	for _, sf := range fs {
		f := sf.F
		s := fmt.Sprintf("op%x len%d", f.Opcode, len(f.Payload))
		if f.Fin {
			s += " fin"
		}
		if f.Rsv1 {
			s += " rsv1"
		}
		if sf.Note != "" {
			s += " !" + sf.Note
		}
		out = append(out, s)
	}
	if len(out) > 40 {
		out = append(out[:40], "…")
	}
	return out
}

func sortInts(a []int) {
	for i := 1; i < len(a); i++ {
		for j := i; j > 0 && a[j] < a[j-1]; j-- {
			a[j], a[j-1] = a[j-1], a[j]
		}
	}
}
