package props

import (
	"errors"
	"context"
	"fmt"
	"time"

	"nhooyr.io/websocket"
	"nhooyr.io/websocket/wsjson"

	"verifsim/wsref"
)

// C16 — nothing follows a Close frame: no data frames, no second Close frame.

func init() {
	register(&Prop{ID: "C16", Run: runC16, Quick: 20000, Thorough: 1500000, Level: "exploration"})
}

var c16Triggers = []string{"local-close", "peer-close", "peer-violation", "read-limit", "closeread-data", "netconn-wrong-type", "wsjson-bad-json"}

func runC16(r *Run) {
	t := r.Tape
	trig := t.Draw(len(c16Triggers))
	echo := t.Draw(4) // 0 at once, 1 after a delay, 2 never, 3 a protocol violation instead of the echo
	rc, err := r.drawRawConn("c0", 0)
	if err != nil {
		r.Violate("handshake-failed", "raw", "handshake failed: %v", err)
		return
	}
	c, peer := rc.C, rc.Peer
	nW := t.Draw(4)
	nP := t.Draw(2)
	if trig == 0 && nW+nP == 0 {
		nW = 1
	}
	fireAfter := t.Draw(12)
	r.DrawYields()
	peerDataAfterClose := t.Pct(30)
	emptyClose := t.Pct(30) // the first Close frame carries no status code (1005 / empty payload)
	secondClose := t.Pct(40)
	secondAfter := t.Draw(12)
	msgLen := []int{0, 10, 600, 3000, 9000}[t.Draw(5)]
	useWriter := t.Draw(2) == 1
	rc.Lib.Out().Cap = []int{1 << 30, 4096, 512, 64}[t.Draw(4)]
	rc.Lib.Out().WChunk = t.Weighted(4, 1, 2, 2, 2)
	rc.Lib.Out().OpBudget = 1500
	r.S.Stick = []int{0, 60, 90}[t.Draw(3)]
	r.S.MaxSteps = 40000
	r.S.MaxSim = 3 * time.Minute
	// stall: shortly before the trigger the peer stops reading for 4 s, so that a frame
	// writer is stuck in the transport holding the frame lock while pingers with a 1 s
	// context queue behind it and give up
	stall := t.Pct(25)
	holding := false
	if stall {
		if rc.Lib.Out().Cap > 512 {
			rc.Lib.Out().Cap = 512
		}
		rc.Lib.Out().HardCap = true
		peer.Hold = func() bool { return holding }
		if nP == 0 {
			nP = 1
		}
		if nW == 0 {
			nW = 1
		}
		if msgLen < 600 {
			msgLen = 3000
		}
	}

	sig := fmt.Sprintf("trigger=%s,echo=%d", c16Triggers[trig], echo)
	if stall {
		sig += ",stall"
	}
	r.Class = fmt.Sprintf("%s/w%d/p%d/cli%v", sig, nW, nP, rc.Opts.LibClient)
	r.D("role_lib_client", rc.Opts.LibClient)
	r.D("ext", rc.Opts.Ext)
	r.D("trigger", c16Triggers[trig])
	r.D("echo", []string{"at-once", "delayed", "never", "violation-instead"}[echo])
	r.D("writers", nW)
	r.D("pingers", nP)
	r.D("fire_after", fireAfter)
	r.D("msg_len", msgLen)
	r.D("peer_data_after_close", peerDataAfterClose)
	r.D("empty_close", emptyClose)
	r.D("second_close", secondClose)
	r.Nontrivial = true

	bg := context.Background()
	if trig == 3 {
		c.SetReadLimit(100)
	}
	live := 0
	for i := 0; i < nW; i++ {
		name := fmt.Sprintf("w%d", i)
		data := Payload{Kind: 3, Len: msgLen, Seed: uint32(i + 1)}.Bytes()
		live++
		r.S.Go(name, func() {
			defer func() { live-- }()
			for j := 0; j < 40; j++ {
				r.S.Park("a." + name)
				var err error
				if useWriter && len(data) > 2 {
					var w interface {
						Write([]byte) (int, error)
						Close() error
					}
					w, err = c.Writer(bg, websocket.MessageBinary)
					if err == nil {
						_, err = w.Write(data[:len(data)/2])
						if err == nil {
							r.S.Park("a." + name + ".mid")
							_, err = w.Write(data[len(data)/2:])
						}
						if err == nil {
							err = w.Close()
						}
					}
				} else {
					err = c.Write(bg, websocket.MessageBinary, data)
				}
				if err != nil {
					return
				}
			}
		})
	}
	for i := 0; i < nP; i++ {
		name := fmt.Sprintf("p%d", i)
		live++
		r.S.Go(name, func() {
			defer func() { live-- }()
			for j := 0; j < 20; j++ {
				r.S.Park("a." + name)
				d := 3 * time.Second
				if stall {
					d = time.Second
				}
				ctx, cancel := context.WithTimeout(bg, d)
				err := c.Ping(ctx)
				cancel()
				// (once the transport is closed the pinger stops whatever the error says:
				// a context that ends at the moment the connection is closed leaves Ping
				// through either case of its select, which the runtime chooses)
				if err != nil && (rc.Lib.Closed() || !(stall && errors.Is(err, context.DeadlineExceeded))) {
					return
				}
			}
		})
	}
	// the library-side reader for this trigger
	switch trig {
	case 0, 1, 2, 3:
		live++
		r.S.Go("reader", func() {
			defer func() { live-- }()
			for {
				_, _, err := c.Read(bg)
				if err != nil {
					return
				}
			}
		})
	case 4:
		c.CloseRead(bg)
	case 5:
		live++
		r.S.Go("reader", func() {
			defer func() { live-- }()
			nc := websocket.NetConn(bg, c, websocket.MessageBinary)
			buf := make([]byte, 512)
			for {
				if _, err := nc.Read(buf); err != nil {
					return
				}
			}
		})
	case 6:
		live++
		r.S.Go("reader", func() {
			defer func() { live-- }()
			for {
				var v map[string]any
				if err := wsjson.Read(bg, c, &v); err != nil {
					return
				}
			}
		})
	}
	// a second, explicit Close (the usual deferred Close of an application)
	// at a drawn distance from the trigger
	if secondClose {
		live++
		r.S.Go("closer2", func() {
			defer func() { live-- }()
			for n := 0; n < fireAfter+secondAfter; n++ {
				r.S.Park("a.closer2")
			}
			if stall && secondAfter%3 != 0 {
				// in the middle of the stall, after the trigger: a Close frame may be
				// stuck in the transport at this moment
				r.S.Sleep(2200 * time.Millisecond)
			}
			if secondAfter%2 == 0 {
				c.CloseNow() // (the usual deferred CloseNow)
				return
			}
			c.Close(websocket.StatusGoingAway, "again")
		})
	}
	// the trigger
	r.S.Go("trigger", func() {
		for n := 0; n < fireAfter; n++ {
			r.S.Park("a.trigger")
		}
		if stall {
			holding = true
			time.AfterFunc(4*time.Second, func() {
				holding = false
				r.S.Kick()
			})
			// fire in the middle of the stall, after the 1 s pings have given up
			r.S.Sleep(1500 * time.Millisecond)
			r.S.Count("fault.receiver-stall")
		}
		switch trig {
		case 0:
			if emptyClose {
				c.Close(websocket.StatusNoStatusRcvd, "")
			} else {
				c.Close(websocket.StatusNormalClosure, "bye")
			}
		case 1:
			pl := wsref.ClosePayload(4000, "peer")
			if emptyClose {
				pl = nil
			}
			peer.Send(wsref.Frame{Fin: true, Opcode: wsref.OpClose, Payload: pl})
			if peerDataAfterClose {
				peer.Send(wsref.Frame{Fin: true, Opcode: wsref.OpText, Payload: []byte("late")})
			}
		case 2:
			peer.Send(wsref.Frame{Fin: true, Opcode: wsref.OpText, Rsv2: true, Payload: []byte("x")})
		case 3:
			peer.Send(wsref.Frame{Fin: true, Opcode: wsref.OpBinary, Payload: make([]byte, 300)})
		case 4:
			peer.Send(wsref.Frame{Fin: true, Opcode: wsref.OpText, Payload: []byte("unexpected")})
		case 5:
			peer.Send(wsref.Frame{Fin: true, Opcode: wsref.OpText, Payload: []byte("wrong type")})
		case 6:
			peer.Send(wsref.Frame{Fin: true, Opcode: wsref.OpText, Payload: []byte("{not json")})
		}
		// let everybody run into the closed connection, then make sure it ends
		r.S.ParkE("a.trigger.wait", func() bool { return live == 0 || r.S.Now() > 60*time.Second }, nil)
		c.CloseNow()
	})
	// wake the scheduler once the 60 s escape hatch is due
	time.AfterFunc(61*time.Second, r.S.Kick)
	r.S.Go("peer", func() {
		seen := 0
		echoed := false
		for {
			f := peer.Next(&seen)
			if f == nil {
				return
			}
			switch f.Opcode {
			case wsref.OpPing:
				peer.Send(wsref.Frame{Fin: true, Opcode: wsref.OpPong, Payload: f.Payload})
			case wsref.OpClose:
				if echoed || echo == 2 || trig == 1 {
					continue
				}
				echoed = true
				if echo == 1 {
					r.S.Sleep(time.Second)
				}
				if echo == 3 {
					peer.Send(wsref.Frame{Fin: true, Opcode: 3, Payload: []byte("not an echo")})
					continue
				}
				peer.Send(wsref.Frame{Fin: true, Opcode: wsref.OpClose, Payload: f.Payload})
				if peerDataAfterClose {
					peer.Send(wsref.Frame{Fin: true, Opcode: wsref.OpText, Payload: []byte("late")})
				}
			}
		}
	})
	r.S.Loop()
	if r.S.Aborted != "" {
		if r.S.Aborted == "sim-time" {
			r.Violate("stuck", sig, "run did not finish: parked=%v", r.S.ParkedIDs())
		}
		return
	}
	if peer.ParseErr != nil {
		r.Violate("unparsable", sig, "emitted bytes do not parse: %v", peer.ParseErr)
		return
	}
	first := -1
	for i, f := range peer.Frames {
		if f.Opcode == wsref.OpClose {
			if first < 0 {
				first = i
				continue
			}
			r.Violate("second-close-frame", sig, "frame %d is a second Close frame (payload %x) after the Close frame at %d (payload %x)", i, f.Payload, first, peer.Frames[first].Payload)
			return
		}
		if first >= 0 && !wsref.IsControl(f.Opcode) {
			r.Violate("data-after-close", sig, "frame %d (opcode %x, fin=%v, %d bytes) was sent after the Close frame at %d", i, f.Opcode, f.Fin, f.Len, first)
			return
		}
	}
	if first >= 0 {
		r.S.Count("probe.close-frame-seen")
		if first < len(peer.Frames)-1 {
			r.S.Count("probe.frames-after-close(control)")
		}
	}
	if p := peer.Partial; p != nil && first >= 0 && p.HdrEnd > 0 && !wsref.IsControl(p.Opcode) {
		r.Violate("data-after-close", sig, "an incomplete data frame (opcode %x) follows the Close frame", p.Opcode)
	}
}
