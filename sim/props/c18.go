package props

import (
	"bytes"
	"context"
	"errors"
	"fmt"
	"io"
	"net"
	"os"
	"time"

	"nhooyr.io/websocket"

	"verifsim/wsref"
)

// C18 — NetConn is a faithful byte stream with correct EOF, type check and
// deadlines.

func init() {
	register(&Prop{ID: "C18", Run: runC18, Quick: 10000, Thorough: 800000, Level: "exploration"})
}

func isDeadlineErr(err error) bool {
	if err == nil {
		return false
	}
	if errors.Is(err, context.DeadlineExceeded) {
		return true
	}
	var ne net.Error
	return errors.As(err, &ne) && ne.Timeout()
}

func runC18(r *Run) {
	switch r.Tape.Weighted(3, 2, 4) {
	case 0:
		c18Stream(r)
	case 1:
		c18Endings(r)
	default:
		c18Deadlines(r)
	}
}

var c18Bufs = []int{4096, 1, 3, 100, 70000}

// (A) byte-stream fidelity between two real endpoints, ended by Close.
func c18Stream(r *Run) {
	t := r.Tape
	o := PairOpts{CMode: modes[t.Draw(3)], SMode: modes[t.Draw(3)]}
	cli, srv, ce, se, err := r.LibPair("p0", o)
	if err != nil {
		r.Violate("handshake-failed", "stream", "%v", err)
		return
	}
	typ := websocket.MessageType(1 + t.Draw(2))
	bg := context.Background()
	ncC := websocket.NetConn(bg, cli, typ)
	ncS := websocket.NetConn(bg, srv, typ)
	sig := "stream"
	r.Class = fmt.Sprintf("stream/c%d/s%d/t%d", o.CMode, o.SMode, typ)
	r.Nontrivial = true
	type dirPlan struct {
		name   string
		w, rd  net.Conn
		sizes  []int
		buf    int
		data   []byte
		got    []byte
		rerr   error
		closer bool
	}
	mk := func(name string, w, rd net.Conn) *dirPlan {
		d := &dirPlan{name: name, w: w, rd: rd, buf: c18Bufs[t.Draw(len(c18Bufs))]}
		for n := t.Draw(7); n > 0; n-- {
			d.sizes = append(d.sizes, DrawSize(t, 70000, 4096))
		}
		return d
	}
	dirs := []*dirPlan{mk("c2s", ncC, ncS), mk("s2c", ncS, ncC)}
	closerDir := t.Draw(2)
	vol := 0
	for _, d := range dirs {
		for _, n := range d.sizes {
			vol += n
		}
		r.D(d.name, fmt.Sprintf("writes=%v readbuf=%d", d.sizes, d.buf))
	}
	r.D("closer", dirs[closerDir].name)
	r.DrawNetKnobs(vol, ce.Out(), se.Out())
	r.S.MaxSteps = 60000
	r.S.MaxSim = 5 * time.Minute
	writersDone := 0
	for i, d := range dirs {
		d := d
		isCloser := i == closerDir
		r.S.Go("w."+d.name, func() {
			seed := uint32(len(d.name))
			for j, n := range d.sizes {
				r.S.Park("a.w." + d.name)
				p := Payload{Kind: j % 4, Len: n, Seed: seed + uint32(j)}.Bytes()
				d.data = append(d.data, p...)
				snap := append([]byte(nil), p...)
				m, err := d.w.Write(p)
				if err != nil || m != len(p) {
					r.Violate("write-error", sig, "%s: Write(%d bytes) = %d, %v", d.name, len(p), m, err)
					return
				}
				if !bytes.Equal(snap, p) {
					r.Violate("caller-buffer-modified", sig, "%s: Write modified its argument", d.name)
				}
			}
			writersDone++
			if isCloser {
				// wait until the other writer is done too, then close normally
				// (and until this side has read everything sent to it: Close
				// discards data that arrives during the handshake)
				other := dirs[1-closerDir]
				r.S.ParkE("a.w."+d.name+".close", func() bool { return writersDone == 2 && len(other.got) == len(other.data) }, nil)
				r.S.Sleep(time.Second)
				if len(other.sizes) == 0 {
					d.w.Close() // NetConn.Close: StatusNormalClosure
				} else {
					// An active Read on the NetConn being closed would be
					// cancelled by NetConn.Close and tear the connection down
					// before the Close frame is written, so close the
					// underlying Conn the way NetConn.Close does.
					conn := cli
					if d.w == ncS {
						conn = srv
					}
					conn.Close(websocket.StatusNormalClosure, "")
				}
			}
		})
		// The reader on the closing side stops once it has everything: an
		// active Read on the NetConn being closed is cancelled by Close and
		// tears the connection down before the Close frame is written.
		if i != closerDir && len(d.sizes) == 0 {
			// nothing is sent to the closing side: no reader there, so that
			// NetConn.Close itself can be used (see below)
			continue
		}
		r.S.Go("r."+d.name, func() {
			buf := make([]byte, d.buf)
			for {
				n, err := d.rd.Read(buf)
				d.got = append(d.got, buf[:n]...)
				if err != nil {
					d.rerr = err
					return
				}
				if n == 0 {
					r.Violate("zero-read", sig, "%s: Read returned 0, nil", d.name)
					return
				}
			}
		})
	}
	r.S.Loop()
	if r.S.Aborted != "" {
		if r.S.Aborted == "sim-time" {
			r.Violate("stuck", sig, "stream exchange did not finish: parked=%v", r.S.ParkedIDs())
		}
		return
	}
	for i, d := range dirs {
		if k := firstDiff(d.got, d.data); k >= 0 {
			r.Violate("stream-differs", sig, "%s: bytes read differ from bytes written at offset %d (read %d, written %d; writes %v, read buffer %d)", d.name, k, len(d.got), len(d.data), d.sizes, d.buf)
		}
		// the reader of the closer's direction sees the peer's normal close
		if i == closerDir && d.rerr != io.EOF {
			r.Violate("eof-expected", sig, "%s: peer closed normally, Read returned %v instead of io.EOF", d.name, d.rerr)
		}
	}
}

// (B)+(C) endings: close codes, transport cut, wrong message type.
func c18Endings(r *Run) {
	t := r.Tape
	o := RawOpts{LibClient: t.Draw(2) == 1}
	if t.Pct(50) {
		// permessage-deflate: the scripted peer compresses some messages and may
		// end them with a BFINAL=1 block (RFC 7692 7.2.3.4)
		o.Mode, o.Ext = modes[1+t.Draw(2)], extChoices[1+t.Draw(len(extChoices)-1)]
	}
	rc, err := r.newRawConn("c0", o)
	if err != nil {
		r.Violate("handshake-failed", "endings", "%v", err)
		return
	}
	c, peer := rc.C, rc.Peer
	var comp *wsref.Deflater
	if rc.Neg.Deflate {
		comp = &wsref.Deflater{Takeover: rc.PeerTake}
	}
	typ := byte(1 + t.Draw(2))
	ending := t.Draw(5) // 0 close 1000, 1 close 1001, 2 other code, 3 transport cut, 4 wrong type
	codes := []int{1002, 1003, 1008, 1011, 3000, 4999, 1005}
	code := 1000
	switch ending {
	case 1:
		code = 1001
	case 2:
		code = codes[t.Draw(len(codes))]
	}
	nMsgs := t.Draw(4)
	bufSize := c18Bufs[t.Draw(len(c18Bufs))]
	rc.Lib.In().RChunk = t.Weighted(4, 1, 2, 2, 2)
	bg := context.Background()
	nc := websocket.NetConn(bg, c, websocket.MessageType(typ))
	sig := fmt.Sprintf("ending=%d", ending)
	if ending == 2 {
		sig += fmt.Sprintf(",code=%d", code)
	}
	r.Class = fmt.Sprintf("endings/%s/cli%v/n%d", sig, o.LibClient, nMsgs)
	r.D("ending", []string{"close-1000", "close-1001", "close-other", "cut", "wrong-type"}[ending])
	r.D("code", code)
	r.D("msgs", nMsgs)
	r.D("role_lib_client", o.LibClient)
	r.Nontrivial = true
	var want []byte
	var stream []byte
	for i := 0; i < nMsgs; i++ {
		n := []int{0, 5, 300, 5000}[t.Draw(4)]
		p := Payload{Kind: 3, Len: n, Seed: uint32(i + 1)}.Bytes()
		want = append(want, p...)
		spec := MsgSpec{Typ: typ, Data: p, Frags: SplitFrags(t, n)}
		if comp != nil && t.Pct(70) {
			spec.Compress = true
			spec.BFinal = t.Pct(40)
		}
		stream = append(stream, peer.Encode(MessageFrames(spec, comp)...)...)
	}
	// insideMsg: the peer's normal / going-away Close frame arrives between the
	// fragments of a message (or in front of its empty final frame). The byte
	// stream then ends inside a message: that is not a clean end, Read must not
	// report io.EOF (the bytes of the unfinished message that were received may
	// be delivered before the error).
	insideMsg := ending <= 1 && t.Pct(30)
	var tailWant []byte
	if insideMsg {
		tailWant = Payload{Kind: 3, Len: []int{0, 7, 300}[t.Draw(3)], Seed: 77}.Bytes()
		fs := []wsref.Frame{{Fin: false, Opcode: typ, Payload: tailWant}}
		if t.Pct(50) && len(tailWant) > 2 {
			h := len(tailWant) / 2
			fs = []wsref.Frame{{Fin: false, Opcode: typ, Payload: tailWant[:h]}, {Fin: false, Opcode: wsref.OpCont, Payload: tailWant[h:]}}
		}
		stream = append(stream, peer.Encode(fs...)...)
		r.S.Count("probe.close-frame-inside-a-message")
	}
	switch ending {
	case 0, 1, 2:
		pl := wsref.ClosePayload(code, "end")
		if code == 1005 {
			pl = nil
		}
		stream = append(stream, peer.Encode(wsref.Frame{Fin: true, Opcode: wsref.OpClose, Payload: pl})...)
	case 4:
		other := byte(3 - typ)
		wf := peer.Encode(wsref.Frame{Fin: true, Opcode: other, Payload: Payload{Kind: 3, Len: 100, Seed: 7}.Bytes()})
		if t.Pct(40) {
			// only the header and a part of the payload arrive, then the peer is silent:
			// the adapter's close handshake has to give up in bounded time
			wf = wf[:len(wf)-60]
			r.S.Count("probe.wrong-type-frame-stalls-in-its-payload")
		}
		stream = append(stream, wf...)
	}
	peer.Inject(stream)
	if ending == 3 {
		rc.Raw.CloseWrite()
	}
	// a peer that sends its Close frame and is gone at once: the echo cannot be
	// written any more, the Close frame was received all the same
	peerGone := ending <= 2 && t.Pct(35)
	if peerGone {
		rc.Raw.Close()
		sig0 := "peer-gone"
		r.D("peer", sig0)
		r.S.Count("probe.close-frame-then-peer-gone")
	}
	var got []byte
	var errs []error
	closeAtOnce := t.Pct(40)
	deadlineAfterEOF := false
	r.S.Go("reader", func() {
		buf := make([]byte, bufSize)
		for len(errs) < 3 {
			n, err := nc.Read(buf)
			got = append(got, buf[:n]...)
			if err != nil {
				errs = append(errs, err)
				if len(errs) == 1 && !closeAtOnce && err == io.EOF && nMsgs%2 == 0 {
					// after the clean end of the stream an idle read deadline passes (an
					// application that keeps its deadline handling going): the reads that
					// follow must still return, with io.EOF or the deadline error
					nc.SetReadDeadline(time.Now().Add(time.Millisecond))
					r.S.Sleep(20 * time.Millisecond)
					r.S.Count("probe.idle-read-deadline-after-eof")
					deadlineAfterEOF = true
				}
				if len(errs) == 1 && closeAtOnce {
					// the application gives up on the connection right after the failed
					// Read: whatever the adapter had to do because of the failure (the
					// 1003 Close frame for a wrong message type) must already be done
					nc.Close()
				}
				r.S.Park("a.reader.again")
			}
		}
		c.CloseNow()
	})
	if peerGone {
		sig += ",peer-gone"
	} else {
		r.S.Go("peer", func() { peer.Drain() })
	}
	r.S.Loop()
	if r.S.Aborted != "" {
		if r.S.Aborted == "sim-time" {
			r.Violate("stuck", sig, "reader did not finish: parked=%v", r.S.ParkedIDs())
		}
		return
	}
	if insideMsg {
		sig += ",inside-message"
		full := append(append([]byte{}, want...), tailWant...)
		if !bytes.HasPrefix(got, want) || !bytes.HasPrefix(full, got) {
			r.Violate("stream-differs", sig, "bytes read before the ending differ (read %d, complete messages %d, plus %d of the unfinished one)", len(got), len(want), len(tailWant))
		}
		if len(errs) > 0 && errs[0] == io.EOF {
			r.Violate("eof-inside-message", sig, "the peer's Close frame (%d) arrived between the fragments of a message and Read reported io.EOF: the stream ended cleanly although its last message was cut off", code)
		}
		if len(errs) == 0 {
			r.Violate("no-error", sig, "Read never failed")
		}
		return
	}
	if !bytes.Equal(got, want) {
		r.Violate("stream-differs", sig, "bytes read before the ending differ (read %d, sent %d, first difference %d)", len(got), len(want), firstDiff(got, want))
	}
	if len(errs) == 0 {
		r.Violate("no-error", sig, "Read never failed")
		return
	}
	switch ending {
	case 0, 1:
		for i, e := range errs {
			var ne net.Error
			if deadlineAfterEOF && i > 0 && (errors.Is(e, context.DeadlineExceeded) || errors.Is(e, os.ErrDeadlineExceeded) || errors.As(e, &ne) && ne.Timeout()) {
				continue // (an expired idle deadline is reported until it is reset)
			}
			if e != io.EOF {
				r.Violate("eof-expected", sig, "close code %d: Read #%d after the close returned %v instead of io.EOF", code, i, e)
				break
			}
		}
	default:
		if errs[0] == io.EOF {
			r.Violate("eof-unexpected", sig, "ending %q reported as io.EOF", r.Desc["ending"])
		}
	}
	if ending == 4 {
		found := false
		for _, f := range peer.Frames {
			if f.Opcode == wsref.OpClose {
				found = true
				if len(f.Payload) < 2 || int(f.Payload[0])<<8|int(f.Payload[1]) != 1003 {
					r.Violate("wrong-type-close-code", sig, "wrong message type answered with Close payload %x, want status 1003", f.Payload)
				}
				break
			}
		}
		if !found {
			r.Violate("wrong-type-not-closed", sig, "wrong message type: no Close frame was sent")
		}
		if !rc.Lib.Closed() {
			r.Violate("wrong-type-not-closed", sig, "wrong message type: connection still open")
		}
	}
}

// (D) deadline programs on the fake clock.
func c18Deadlines(r *Run) {
	t := r.Tape
	o := RawOpts{LibClient: t.Draw(2) == 1}
	rc, err := r.newRawConn("c0", o)
	if err != nil {
		r.Violate("handshake-failed", "deadline", "%v", err)
		return
	}
	c, peer := rc.C, rc.Peer
	bg := context.Background()
	typ := websocket.MessageBinary
	nc := websocket.NetConn(bg, c, typ)
	nSteps := 1 + t.Draw(6)
	type step struct {
		kind  int // 0 RT, 1 idle-read, 2 idle-write, 3 idle-both, 4 future-not-reached, 5 reset-then-RT
		d     time.Duration
		reset int // 0 zero time, 1 far future
		mid   bool // idle-read: the deadline passes while a message is partly consumed
	}
	durs := []time.Duration{-time.Hour, -time.Nanosecond, time.Nanosecond, time.Millisecond, time.Second, 30 * time.Second}
	var plan []step
	for i := 0; i < nSteps; i++ {
		plan = append(plan, step{kind: t.Draw(6), d: durs[t.Draw(len(durs))], reset: t.Draw(2), mid: t.Draw(2) == 1})
	}
	terminal := t.Draw(5) // 0 none, 1 active read, 2 active write, 3/4 a past deadline set while a Read / Write is blocked
	// bgRead: a Read is blocked in another goroutine during the whole program,
	// which then only exercises the write side (write deadlines must not be
	// confused by an active reader and vice versa).
	bgRead := t.Pct(25)
	if bgRead {
		for i := range plan {
			if plan[i].kind != 2 {
				plan[i].kind = []int{0, 2}[i%2]
			}
		}
		if terminal == 1 {
			terminal = 2
		}
		if terminal == 3 {
			terminal = 4
		}
	}
	termD := []time.Duration{time.Millisecond, time.Second, 10 * time.Second}[t.Draw(3)]
	// the blocked Write of the write terminals: 50000 bytes through a pipe of 1024,
	// or no bytes at all through a pipe that takes nothing (an empty message is a
	// frame too: its header is the only thing the transport is asked to take)
	termWLen, termWCap := 50000, 1024
	if t.Pct(30) {
		termWLen, termWCap = 0, 0
	}
	// what has arrived of the next message when an active read deadline fires:
	// nothing; the frame header only; the header and a few payload bytes; a
	// whole non-final fragment plus the beginning of the next frame
	partial := t.Draw(4)
	injectPartial := func() {
		msg := Payload{Kind: 3, Len: 40, Seed: 99}.Bytes()
		switch partial {
		case 1:
			peer.Inject(peer.Encode(wsref.Frame{Fin: true, Opcode: wsref.OpBinary, Payload: msg})[:2])
		case 2:
			b := peer.Encode(wsref.Frame{Fin: true, Opcode: wsref.OpBinary, Payload: msg})
			peer.Inject(b[:len(b)-len(msg)+3])
		case 3:
			b := peer.Encode(wsref.Frame{Fin: false, Opcode: wsref.OpBinary, Payload: nil}, wsref.Frame{Fin: true, Opcode: wsref.OpCont, Payload: msg})
			peer.Inject(b[:len(b)-len(msg)+1])
		}
		if partial > 0 {
			r.S.Count("probe.active-read-deadline-with-partial-frame")
		}
	}
	sig := fmt.Sprintf("deadline,terminal=%d", terminal)
	if (terminal == 1 || terminal == 3) && partial > 0 {
		sig += fmt.Sprintf(",partial=%d", partial)
	}
	r.Class = fmt.Sprintf("deadline/cli%v/t%d/n%d", o.LibClient, terminal, nSteps)
	var pd []string
	for _, s := range plan {
		pd = append(pd, fmt.Sprintf("%s/%v/reset%d", []string{"rt", "idle-read", "idle-write", "idle-both", "future", "future-then-cleared"}[s.kind], s.d, s.reset))
	}
	r.D("plan", pd)
	r.D("terminal", []string{"none", "active-read", "active-write", "interrupt-read", "interrupt-write"}[terminal])
	r.D("term_d", termD.String())
	r.D("role_lib_client", o.LibClient)
	r.Nontrivial = true
	r.S.MaxSim = 20 * time.Minute
	hold := false
	peer.Hold = func() bool { return hold }
	seq := 0
	roundTrip := func(where string) bool {
		seq++
		if !bgRead {
			in := Payload{Kind: 3, Len: 10 + seq*7, Seed: uint32(seq)}.Bytes()
			peer.Inject(peer.Encode(wsref.Frame{Fin: true, Opcode: wsref.OpBinary, Payload: in}))
			buf := make([]byte, len(in))
			if _, err := io.ReadFull(nc, buf); err != nil || !bytes.Equal(buf, in) {
				r.Violate("round-trip-failed", sig+","+where, "read of a fresh message failed %s: %v", where, err)
				return false
			}
		}
		out := Payload{Kind: 3, Len: 20 + seq*3, Seed: uint32(seq + 100)}.Bytes()
		if n, err := nc.Write(out); err != nil || n != len(out) {
			r.Violate("round-trip-failed", sig+","+where, "write failed %s: %d, %v", where, n, err)
			return false
		}
		if rc.Lib.Closed() {
			r.Violate("connection-closed-by-idle-deadline", sig+","+where, "transport closed %s", where)
			return false
		}
		return true
	}
	reset := func(s step, rd, wr bool) {
		var tm time.Time
		if s.reset == 1 {
			tm = time.Now().Add(time.Hour)
		}
		switch {
		case rd && wr:
			nc.SetDeadline(tm)
		case rd:
			nc.SetReadDeadline(tm)
		default:
			nc.SetWriteDeadline(tm)
		}
	}
	if bgRead {
		r.S.Go("bgreader", func() { nc.Read(make([]byte, 16)) })
	}
	r.D("bg_read", bgRead)
	r.S.Go("prog", func() {
		defer c.CloseNow()
		if bgRead {
			r.S.ParkE("a.prog.bgwait", func() bool { return rc.Lib.InReadLocked() }, nil)
		}
		for i, s := range plan {
			r.S.Park("a.prog")
			where := fmt.Sprintf("at step %d (%v)", i, pd[i])
			switch s.kind {
			case 0:
				if !roundTrip(where) {
					return
				}
			case 1, 2, 3:
				rd, wr := s.kind != 2, s.kind != 1
				mid := s.mid && rd && !bgRead
				if mid {
					// half of a message is consumed before the deadline is set
					peer.Inject(peer.Encode(wsref.Frame{Fin: true, Opcode: wsref.OpBinary, Payload: []byte("first-half|second-half")}))
					buf := make([]byte, 11)
					if _, err := io.ReadFull(nc, buf); err != nil || string(buf) != "first-half|" {
						r.Violate("round-trip-failed", sig+",mid", "read of the first half failed: %q %v %s", buf, err, where)
						return
					}
					r.S.Count("probe.idle-deadline-mid-message")
				}
				dl := time.Now().Add(s.d)
				switch {
				case rd && wr:
					nc.SetDeadline(dl)
				case rd:
					nc.SetReadDeadline(dl)
				default:
					nc.SetWriteDeadline(dl)
				}
				// no call is active while the deadline passes
				wait := s.d
				if wait < 0 {
					wait = 0
				}
				r.S.Sleep(wait + time.Second)
				if rc.Lib.Closed() {
					r.Violate("connection-closed-by-idle-deadline", sig, "transport closed by a deadline that passed while no call was active, %s", where)
					return
				}
				if rd {
					peer.Inject(peer.Encode(wsref.Frame{Fin: true, Opcode: wsref.OpBinary, Payload: []byte("pending")}))
					n, err := nc.Read(make([]byte, 7))
					if !isDeadlineErr(err) {
						r.Violate("idle-deadline-not-reported", sig+",read", "Read after an expired idle deadline returned %d, %v (want a deadline error) %s (message partly consumed: %v)", n, err, where, mid)
						return
					}
				}
				if wr {
					n, err := nc.Write([]byte("late"))
					if !isDeadlineErr(err) {
						r.Violate("idle-deadline-not-reported", sig+",write", "Write after an expired idle deadline returned %d, %v (want a deadline error) %s", n, err, where)
						return
					}
				}
				if rc.Lib.Closed() {
					r.Violate("connection-closed-by-idle-deadline", sig, "transport closed by calls that failed with an idle deadline, %s", where)
					return
				}
				reset(s, rd, wr)
				if mid {
					buf := make([]byte, 11)
					if _, err := io.ReadFull(nc, buf); err != nil || string(buf) != "second-half" {
						r.Violate("round-trip-failed", sig+",after-reset", "read of the rest of the partly consumed message after resetting the deadline failed: %q %v %s", buf, err, where)
						return
					}
				}
				if rd {
					// the message injected above is still pending
					buf := make([]byte, 7)
					if _, err := io.ReadFull(nc, buf); err != nil || string(buf) != "pending" {
						r.Violate("round-trip-failed", sig+",after-reset", "read after resetting the deadline failed: %q %v %s", buf, err, where)
						return
					}
				}
				if !roundTrip("after reset, " + where) {
					return
				}
			case 5:
				// a deadline in the future that is cleared (or pushed far away) before it
				// passes must have no effect when its original instant goes by
				d := s.d
				if d < time.Millisecond {
					d = time.Second
				}
				which := int(d/time.Millisecond+time.Duration(i)) % 3
				set := []func(time.Time) error{nc.SetDeadline, nc.SetReadDeadline, nc.SetWriteDeadline}[which]
				set(time.Now().Add(d))
				if s.reset == 0 {
					set(time.Time{})
				} else {
					set(time.Now().Add(time.Hour))
				}
				r.S.Sleep(d + time.Second)
				r.S.Count("probe.cleared-deadline-instant-passed")
				if !roundTrip("after the instant of a cleared deadline passed, " + where) {
					return
				}
			case 4:
				nc.SetDeadline(time.Now().Add(time.Hour))
				if !roundTrip(where) {
					return
				}
				if s.reset == 0 {
					nc.SetDeadline(time.Time{})
				}
			}
		}
		switch terminal {
		case 1:
			injectPartial()
			nc.SetReadDeadline(time.Now().Add(termD))
			start := r.S.Now()
			_, err := nc.Read(make([]byte, 10))
			took := r.S.Now() - start
			if err == nil {
				r.Violate("active-deadline-ignored", sig, "Read returned nil although nothing was sent and its deadline (%v) passed", termD)
				return
			}
			if took > termD+time.Second || took < termD {
				r.Violate("active-deadline-timing", sig, "Read blocked for %v with a deadline of %v", took, termD)
			}
			r.S.Sleep(time.Second)
			if !rc.Lib.Closed() {
				r.Violate("active-deadline-not-closed", sig, "deadline fired during a blocked Read (err %v) but the connection was not closed", err)
			}
		case 3, 4:
			// the usual way to interrupt a net.Conn call: set a deadline that has
			// already passed while the call is blocked in another goroutine
			var callErr error
			returned := false
			var retAt time.Duration
			if terminal == 4 {
				hold = true
				rc.Lib.Out().Cap = termWCap
				rc.Lib.Out().HardCap = true
				if termWLen == 0 {
					r.S.Count("probe.deadline-during-a-blocked-empty-write")
				}
			}
			if terminal == 3 {
				injectPartial()
			}
			r.S.Go("blocked", func() {
				if terminal == 3 {
					_, callErr = nc.Read(make([]byte, 10))
				} else {
					_, callErr = nc.Write(Payload{Kind: 2, Len: termWLen, Seed: 4}.Bytes())
				}
				retAt = r.S.Now()
				returned = true
			})
			r.S.ParkE("a.prog.blockwait", func() bool {
				if terminal == 3 {
					return rc.Lib.InReadLocked()
				}
				return rc.Lib.InWriteLocked()
			}, nil)
			r.S.Sleep(termD)
			at := r.S.Now()
			past := time.Now().Add(-time.Duration(1+plan[0].reset) * time.Second)
			if terminal == 3 {
				nc.SetReadDeadline(past)
			} else {
				nc.SetWriteDeadline(past)
			}
			r.S.Sleep(2 * time.Second)
			hold = false
			if !returned {
				r.Violate("active-deadline-ignored", sig, "a deadline in the past was set while the call was blocked; 2 s later the call is still blocked")
				return
			}
			if callErr == nil {
				r.Violate("active-deadline-ignored", sig, "the interrupted call returned nil")
			}
			if retAt-at > time.Second {
				r.Violate("active-deadline-timing", sig, "the interrupted call returned %v after the deadline was set", retAt-at)
			}
			if !rc.Lib.Closed() {
				r.Violate("active-deadline-not-closed", sig, "deadline fired during a blocked call (err %v) but the connection was not closed", callErr)
			}
		case 2:
			hold = true
			rc.Lib.Out().Cap = termWCap
			rc.Lib.Out().HardCap = true
			if termWLen == 0 {
				r.S.Count("probe.deadline-during-a-blocked-empty-write")
			}
			nc.SetWriteDeadline(time.Now().Add(termD))
			start := r.S.Now()
			_, err := nc.Write(Payload{Kind: 2, Len: termWLen, Seed: 4}.Bytes())
			took := r.S.Now() - start
			if err == nil {
				r.Violate("active-deadline-ignored", sig, "Write returned nil although the peer never read and its deadline (%v) passed", termD)
				return
			}
			if took > termD+time.Second || took < termD {
				r.Violate("active-deadline-timing", sig, "Write blocked for %v with a deadline of %v", took, termD)
			}
			r.S.Sleep(time.Second)
			if !rc.Lib.Closed() {
				r.Violate("active-deadline-not-closed", sig, "deadline fired during a blocked Write (err %v) but the connection was not closed", err)
			}
			hold = false
		}
	})
	r.S.Go("peer", func() { peer.Drain() })
	r.S.Loop()
	if r.S.Aborted == "sim-time" {
		r.Violate("stuck", sig, "deadline program did not finish: parked=%v", r.S.ParkedIDs())
	}
}
