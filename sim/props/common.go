// Package props holds the scenarios, scripted peer and per-property
// generators and oracles. Everything here runs inside a synctest bubble under
// the simrt scheduler.
package props

import (
	"bytes"
	"bufio"
	"context"
	"crypto/sha1"
	"encoding/base64"
	"fmt"
	"net"
	"net/http"
	"net/http/httptest"
	"os"
	"runtime"
	"runtime/debug"
	"sort"
	"strings"
	"sync"
	"testing"
	"testing/synctest"
	"time"

	"nhooyr.io/websocket"

	"verifsim/simrt"
)

// Violation is one oracle failure.
type Violation struct {
	Oracle string `json:"oracle"`
	Sig    string `json:"sig"` // scenario signature used to match known findings
	Msg    string `json:"msg"`
	Step   int    `json:"step"`
	SimUS  int64  `json:"sim_us"`
}

// Run is the context of one simulated execution.
type Run struct {
	T    *testing.T
	Tape *simrt.Tape
	S    *simrt.Sim
	Tier string

	vmu        sync.Mutex
	trackMu    sync.Mutex
	Viol       []Violation
	Nontrivial bool
	Class      string         // coarse scenario class (distinctness / stats)
	Desc       map[string]any // decoded scenario, for samples and replay files

	y      *yieldState
	simEnd time.Duration
	steps  int
	late   []Violation
	conns  []*websocket.Conn
	ends   []*simrt.End
	Ctx    context.Context
	stop   context.CancelFunc

	inflight []*inflightBuf // caller buffers currently inside a write call
}

type inflightBuf struct {
	who        string
	data, snap []byte
}

// checkInflight compares every buffer that is inside a write call right now with
// the snapshot taken before the call: the library may not modify a caller's
// buffer, not even for the duration of the call (another goroutine may be
// sending the same buffer on another connection).
func (r *Run) checkInflight() {
	for _, b := range r.inflight {
		if !bytes.Equal(b.data, b.snap) {
			r.Violate("caller-buffer-modified", "write", "%s: the buffer passed to a write call (%d bytes) differs from its content before the call while the call is in progress (first difference at byte %d)", b.who, len(b.snap), firstDiff(b.data, b.snap))
			return
		}
	}
}

// Violate records an oracle failure.
func (r *Run) Violate(oracle, sig, format string, a ...any) {
	if r.S.Draining() {
		// cleanup phase: errors here are the harness tearing things down
		return
	}
	msg := fmt.Sprintf(format, a...)
	if len(msg) > 1500 {
		msg = msg[:1500] + "…"
	}
	v := Violation{Oracle: oracle, Sig: sig, Msg: msg, Step: r.S.Step(), SimUS: r.S.Now().Microseconds()}
	r.vmu.Lock()
	r.Viol = append(r.Viol, v)
	r.vmu.Unlock()
}

// D records a decoded scenario parameter.
func (r *Run) D(k string, v any) { r.Desc[k] = v }

// Prop is one property harness.
type Prop struct {
	ID string
	// Run builds the scenario from r.Tape, runs it and records violations.
	Run func(r *Run)
	// Enum returns forced tape prefixes to enumerate before random runs.
	Enum func(tier string) [][]uint32
	// Random run counts per tier.
	Quick, Thorough int
	Level           string
	// Exhaustive describes the enumerated dimension (evidence).
	Exhaustive string
	// Race: also meaningful on the race-detector build.
	Race bool
}

// Registry of property harnesses.
var Registry = map[string]*Prop{}

func register(p *Prop) { Registry[p.ID] = p }

// Result of one execution.
type Result struct {
	Hash       string         `json:"hash"`
	Viol       []Violation    `json:"viol,omitempty"`
	Nontrivial bool           `json:"nontrivial"`
	Class      string         `json:"class"`
	Desc       map[string]any `json:"desc,omitempty"`
	Steps      int            `json:"steps"`
	SimUS      int64          `json:"sim_us"`
	Stats      map[string]int `json:"stats,omitempty"`
	Aborted    string         `json:"aborted,omitempty"`
	Tape       []uint32       `json:"tape,omitempty"`
	Trace      []string       `json:"trace,omitempty"`
	Leak       string         `json:"leak,omitempty"`
}

// Execute runs one tape of a property in a fresh bubble.
func Execute(t *testing.T, p *Prop, tape *simrt.Tape, tier string, keepTrace bool) (res Result) {
	runtime.GC()
	runtime.GC()
	old := debug.SetGCPercent(-1)
	defer debug.SetGCPercent(old)
	var run *Run
	// synctest.Test calls t.FailNow (runtime.Goexit) when the bubble's test
	// failed, e.g. because the race detector reported something during it; run
	// it on a goroutine of its own so that the worker survives and goes on.
	done := make(chan struct{})
	go func() {
		defer close(done)
		defer func() {
			if rec := recover(); rec != nil {
				res.Leak = fmt.Sprint(rec)
			}
		}()
		synctest.Test(t, func(t *testing.T) {
			s := simrt.NewSim(tape)
			s.KeepTrace = keepTrace
			s.DebugElig = keepTrace && os.Getenv("SIM_DEBUGELIG") != ""
			if s.DebugElig {
				tape.DebugLog = func(l string) { s.Trace = append(s.Trace, l) }
			}
			ctx, cancel := context.WithCancel(context.Background())
			run = &Run{T: t, Tape: tape, S: s, Tier: tier, Desc: map[string]any{}, Ctx: ctx, stop: cancel}
			func() {
				defer func() {
					if rec := recover(); rec != nil {
						run.Viol = append(run.Viol, Violation{Oracle: "harness-panic", Sig: "harness", Msg: clip(fmt.Sprintf("%v\n%s", rec, debug.Stack()))})
					}
				}()
				installHooks(run)
				p.Run(run)
			}()
			run.cleanup()
			removeHooks()
		})
	}()
	<-done
	if run == nil {
		res.Leak = "run did not start: " + res.Leak
		return res
	}
	s := run.S
	if len(s.Panics) > 0 {
		// a panic is the primary failure: report it first
		var pv []Violation
		for _, pn := range s.Panics {
			pv = append(pv, Violation{Oracle: "panic", Sig: "panic:" + panicSite(pn), Msg: clip(pn), Step: run.steps})
		}
		run.Viol = append(pv, run.Viol...)
	}
	if res.Leak != "" {
		run.Viol = append(run.Viol, Violation{Oracle: "goroutine-left-behind", Sig: "bubble-exit", Msg: clip(res.Leak), Step: run.steps})
	}
	res.Hash = s.Hash()
	res.Viol = run.Viol
	res.Nontrivial = run.Nontrivial
	res.Class = run.Class
	res.Desc = run.Desc
	res.Steps = run.steps
	res.SimUS = run.simEnd.Microseconds()
	res.Stats = s.Stats
	res.Aborted = s.Aborted
	res.Tape = tape.Words()
	if keepTrace {
		res.Trace = s.Trace
	}
	return res
}

func clip(s string) string {
	if len(s) > 3000 {
		return s[:3000] + "…"
	}
	return s
}

// panicSite extracts the first library frame of a panic dump, as a stable
// signature.
func panicSite(dump string) string {
	for _, l := range strings.Split(dump, "\n") {
		l = strings.TrimSpace(l)
		if strings.HasPrefix(l, "nhooyr.io/websocket") {
			if i := strings.LastIndex(l, "("); i > 0 {
				return l[:i]
			}
			return l
		}
	}
	return "unknown"
}

// cleanup unwinds everything that is still alive so that the bubble can end.
func (r *Run) cleanup() {
	r.simEnd = r.S.Now()
	r.steps = r.S.Step()
	r.S.Drain()
	r.stop()
	r.trackMu.Lock()
	ends, conns := append([]*simrt.End(nil), r.ends...), append([]*websocket.Conn(nil), r.conns...)
	r.trackMu.Unlock()
	for _, e := range ends {
		e.Close()
	}
	for _, c := range conns {
		if c != nil {
			c.CloseNow()
		}
	}
	synctest.Wait()
}

// Track registers connections and endpoints for cleanup.
func (r *Run) Track(c *websocket.Conn, es ...*simrt.End) {
	// (a real mutex, visible to the race detector: a connection created by an actor
	// is handed to the root goroutine's cleanup through this list, and that hand-over
	// must not look like a race between newConn and the cleanup's CloseNow)
	r.trackMu.Lock()
	defer r.trackMu.Unlock()
	if c != nil {
		r.conns = append(r.conns, c)
	}
	r.ends = append(r.ends, es...)
}

// ---------------------------------------------------------------------------
// Handshake plumbing without bytes on the wire (libpair / lib-vs-raw).

type rtFunc func(*http.Request) (*http.Response, error)

func (f rtFunc) RoundTrip(r *http.Request) (*http.Response, error) { return f(r) }

type hijackRW struct {
	*httptest.ResponseRecorder
	conn     net.Conn
	hijacked bool
}

func (h *hijackRW) Hijack() (net.Conn, *bufio.ReadWriter, error) {
	h.hijacked = true
	return h.conn, bufio.NewReadWriter(bufio.NewReader(h.conn), bufio.NewWriter(h.conn)), nil
}

// AcceptKey is the reference Sec-WebSocket-Accept computation (RFC 6455 4.2.2).
func AcceptKey(key string) string {
	h := sha1.Sum([]byte(key + "258EAFA5-E914-47DA-95CA-C5AB0DC85B11"))
	return base64.StdEncoding.EncodeToString(h[:])
}

// PairOpts configures a libpair scenario.
type PairOpts struct {
	CMode, SMode     websocket.CompressionMode
	CThresh, SThresh int
}

// Deflate reports whether the pair negotiates permessage-deflate, and
// whether either direction runs without context takeover.
func (o PairOpts) Deflate() (on, noTakeover bool) {
	on = o.CMode != websocket.CompressionDisabled && o.SMode != websocket.CompressionDisabled
	noTakeover = o.CMode == websocket.CompressionNoContextTakeover || o.SMode == websocket.CompressionNoContextTakeover
	return
}

// LibPair connects two real Conns (real Dial + real Accept) over simnet.
func (r *Run) LibPair(name string, o PairOpts) (cli, srv *websocket.Conn, ce, se *simrt.End, err error) {
	ce, se = simrt.Pipe(r.S, name)
	var aerr error
	rt := rtFunc(func(req *http.Request) (*http.Response, error) {
		hj := &hijackRW{ResponseRecorder: httptest.NewRecorder(), conn: se}
		srv, aerr = websocket.Accept(hj, req, &websocket.AcceptOptions{
			CompressionMode: o.SMode, CompressionThreshold: o.SThresh,
		})
		resp := hj.ResponseRecorder.Result()
		if resp.StatusCode == http.StatusSwitchingProtocols {
			resp.Body = ce
		}
		return resp, nil
	})
	cli, _, err = websocket.Dial(context.Background(), "ws://sim.test/", &websocket.DialOptions{
		HTTPClient:      &http.Client{Transport: rt},
		CompressionMode: o.CMode, CompressionThreshold: o.CThresh,
	})
	if err == nil && aerr != nil {
		err = aerr
	}
	r.Track(cli, ce)
	r.Track(srv, se)
	return
}

// RawOpts configures a lib-vs-raw scenario.
type RawOpts struct {
	LibClient bool // library plays the client role
	ForceExt  bool // (library as client) answer with Ext although the client offered nothing
	Mode      websocket.CompressionMode
	Thresh    int
	// Ext is the Sec-WebSocket-Extensions value the raw side uses: the
	// response header value when the library is the client, the offer when the
	// library is the server. "" = no extension.
	Ext          string
	Subprotocols []string
}

// Negotiated computes what the two sides agreed on (simple RFC 7692 model for
// the offers this harness generates in C02/C03; C14 checks negotiation itself).
type Negotiated struct {
	Deflate bool
	CNCT    bool // client_no_context_takeover
	SNCT    bool // server_no_context_takeover
}

func negotiate(o RawOpts) Negotiated {
	if o.Mode == websocket.CompressionDisabled || o.Ext == "" {
		return Negotiated{}
	}
	n := Negotiated{Deflate: true}
	if o.Mode == websocket.CompressionNoContextTakeover {
		n.CNCT, n.SNCT = true, true
	}
	if strings.Contains(o.Ext, "client_no_context_takeover") {
		n.CNCT = true
	}
	if strings.Contains(o.Ext, "server_no_context_takeover") {
		n.SNCT = true
	}
	return n
}

// LibVsRaw creates one real Conn whose transport peer is a raw endpoint.
func (r *Run) LibVsRaw(name string, o RawOpts) (c *websocket.Conn, lib, raw *simrt.End, neg Negotiated, err error) {
	ce, se := simrt.Pipe(r.S, name)
	neg = negotiate(o)
	if o.LibClient {
		lib, raw = ce, se
		rt := rtFunc(func(req *http.Request) (*http.Response, error) {
			rec := httptest.NewRecorder()
			rec.Header().Set("Upgrade", "websocket")
			rec.Header().Set("Connection", "Upgrade")
			rec.Header().Set("Sec-WebSocket-Accept", AcceptKey(req.Header.Get("Sec-WebSocket-Key")))
			if o.Ext != "" && (req.Header.Get("Sec-WebSocket-Extensions") != "" || o.ForceExt) {
				for _, line := range strings.Split(o.Ext, "\n") {
					rec.Header().Add("Sec-WebSocket-Extensions", line)
				}
			}
			rec.WriteHeader(http.StatusSwitchingProtocols)
			resp := rec.Result()
			resp.Body = ce
			return resp, nil
		})
		c, _, err = websocket.Dial(context.Background(), "ws://sim.test/", &websocket.DialOptions{
			HTTPClient:      &http.Client{Transport: rt},
			CompressionMode: o.Mode, CompressionThreshold: o.Thresh,
		})
	} else {
		lib, raw = se, ce
		req := httptest.NewRequest("GET", "http://sim.test/", nil)
		req.Header.Set("Connection", "Upgrade")
		req.Header.Set("Upgrade", "websocket")
		req.Header.Set("Sec-WebSocket-Version", "13")
		req.Header.Set("Sec-WebSocket-Key", "dGhlIHNhbXBsZSBub25jZQ==")
		if o.Ext != "" {
			req.Header.Set("Sec-WebSocket-Extensions", o.Ext)
		}
		hj := &hijackRW{ResponseRecorder: httptest.NewRecorder(), conn: se}
		c, err = websocket.Accept(hj, req, &websocket.AcceptOptions{
			CompressionMode: o.Mode, CompressionThreshold: o.Thresh,
		})
	}
	raw.Fast = true
	r.Track(c, lib, raw)
	return
}

// ---------------------------------------------------------------------------
// Payload descriptors.

// Payload is a compact description of message content, expanded locally.
type Payload struct {
	Kind int // 0 periodic text, 1 zeros, 2 incompressible, 3 keyed (tag)
	Len  int
	Seed uint32
}

// Bytes expands the descriptor.
func (p Payload) Bytes() []byte {
	b := make([]byte, p.Len)
	switch p.Kind {
	case 0:
		period := 7 + int(p.Seed%23)
		for i := range b {
			b[i] = 'a' + byte((i%period+int(p.Seed))%26)
		}
	case 1:
	case 2:
		rng := simrt.NewLocalRNG(uint64(p.Seed))
		for i := 0; i < len(b); i += 8 {
			v := rng.Next()
			for j := 0; j < 8 && i+j < len(b); j++ {
				b[i+j] = byte(v >> (8 * j))
			}
		}
	default:
		rng := simrt.NewLocalRNG(uint64(p.Seed))
		words := []string{"alpha", "beta", "gamma", "delta", "websocket", "{\"k\":", "\"v\"}", " ", "\n", "0123456789"}
		i := 0
		for i < len(b) {
			w := words[rng.Intn(len(words))]
			i += copy(b[i:], w)
		}
	}
	return b
}

func (p Payload) String() string { return fmt.Sprintf("k%d/len%d/s%x", p.Kind, p.Len, p.Seed) }

// boundary sizes the property statements name.
var sizeBoundaries = []int{0, 1, 2, 124, 125, 126, 127, 128, 129, 511, 512, 513, 4094, 4095, 4096, 4097, 8191, 8192, 8193,
	32767, 32768, 32769, 65535, 65536, 65537}

// DrawSize draws a message size biased to the boundaries; extra are
// scenario-specific boundaries (thresholds, limits).
func DrawSize(t *simrt.Tape, maxLen int, extra ...int) int {
	var n int
	switch t.Weighted(4, 4, 3, 2) {
	case 0:
		n = t.Draw(300)
	case 1:
		n = sizeBoundaries[t.Draw(len(sizeBoundaries))]
	case 2:
		if len(extra) > 0 {
			n = extra[t.Draw(len(extra))] + t.Draw(3) - 1
		} else {
			n = t.Draw(2000)
		}
	default:
		n = t.Draw(70000)
	}
	if n < 0 {
		n = 0
	}
	if n > maxLen {
		n = maxLen
	}
	return n
}

// DrawPayload draws a payload descriptor.
func DrawPayload(t *simrt.Tape, maxLen int, extra ...int) Payload {
	n := DrawSize(t, maxLen, extra...)
	return Payload{Kind: t.Weighted(4, 2, 3, 3), Len: n, Seed: t.U32()}
}

// sizeClass buckets a length for the distinctness measure.
func sizeClass(n int) string {
	switch {
	case n == 0:
		return "0"
	case n <= 125:
		return "s"
	case n <= 65535:
		if n >= 32768 {
			return "w"
		}
		return "m"
	case n < 1<<20:
		return "l"
	}
	return "xl"
}

// errClass maps an error to a coarse, runtime-tie-break-independent class.
func errClass(err error) string {
	if err == nil {
		return "nil"
	}
	if cs := websocket.CloseStatus(err); cs != -1 {
		return fmt.Sprintf("close(%d)", cs)
	}
	return "err"
}

// DrawNetKnobs draws scheduler/transport perturbation knobs for the given
// directions (fault-free: split, back-pressure, stickiness).
func (r *Run) DrawNetKnobs(volume int, dirs ...*simrt.Dir) {
	t := r.Tape
	r.S.Stick = []int{0, 60, 90}[t.Draw(3)]
	caps := []int{1 << 30, 65536, 4096, 512, 16, 1}
	for _, d := range dirs {
		d.Cap = caps[t.Draw(len(caps))]
		d.RChunk = t.Weighted(4, 2, 2, 2, 3)
		d.WChunk = t.Weighted(6, 1, 1, 2, 2)
		d.OpBudget = 1200
		if volume > 20000 && d.Cap < 512 {
			d.Cap = 512
		}
		if volume > 200000 {
			if d.Cap < 4096 {
				d.Cap = 4096
			}
			d.OpBudget = 600
		}
	}
}

// sortedKeys helps deterministic iteration.
func sortedKeys[M ~map[string]V, V any](m M) []string {
	ks := make([]string, 0, len(m))
	for k := range m {
		ks = append(ks, k)
	}
	sort.Strings(ks)
	return ks
}

var _ = time.Second
