package props

import (
	"errors"
	"math"
	"bytes"
	"context"
	"encoding/json"
	"fmt"
	"reflect"
	"strings"

	"nhooyr.io/websocket"
	"nhooyr.io/websocket/wsjson"

	"verifsim/simrt"
	"verifsim/wsref"
)

// C19 — wsjson moves one JSON value per text message and rejects invalid JSON.

func init() {
	register(&Prop{ID: "C19", Run: runC19, Quick: 12000, Thorough: 1500000, Level: "exploration"})
}

var c19Strings = []string{"", "a", "héllo wörld", "日本語テキスト", "quote\"back\\slash", "tab\tnew\nline", "  ", "<>&", "emoji 😀", "null", "0"}

func genJSONValue(t *simrt.Tape, depth int, big bool) any {
	k := t.Weighted(3, 3, 2, 2, 1, 1)
	if depth <= 0 && k <= 1 {
		k = 2 + t.Draw(4)
	}
	switch k {
	case 0:
		m := map[string]any{}
		for n := t.Draw(4); n > 0; n-- {
			m[fmt.Sprintf("k%d%s", n, c19Strings[t.Draw(len(c19Strings))])] = genJSONValue(t, depth-1, false)
		}
		return m
	case 1:
		a := []any{}
		for n := t.Draw(4); n > 0; n-- {
			a = append(a, genJSONValue(t, depth-1, false))
		}
		return a
	case 2:
		s := c19Strings[t.Draw(len(c19Strings))]
		if big {
			s = strings.Repeat(s+"x", 1+40000/(len(s)+1))
		} else if t.Pct(10) {
			s = strings.Repeat(s+"y", 1+t.Draw(300))
		}
		return s
	case 3:
		switch t.Draw(4) {
		case 0:
			return float64(t.Draw(1000))
		case 1:
			return -float64(t.Draw(1 << 30))
		case 2:
			return float64(t.Draw(100000)) / 8
		}
		return float64(1<<53 - 1)
	case 4:
		return t.Draw(2) == 1
	}
	return nil
}

type c19Struct struct {
	Name  string          `json:"name"`
	N     int             `json:"n"`
	Tags  []string        `json:"tags"`
	Inner map[string]any  `json:"inner"`
	Raw   json.RawMessage `json:"raw"`
}

// c19Parker is a caller type with its own UnmarshalJSON, which runs in the middle
// of the decoding of the document that contains it: it gives the scheduler a
// point inside json.Unmarshal at which other connections can make progress.
type c19Parker struct {
	park func()
	Val  string
}

func (p *c19Parker) UnmarshalJSON(b []byte) error {
	if p.park != nil {
		p.park()
	}
	return json.Unmarshal(b, &p.Val)
}

func (p c19Parker) MarshalJSON() ([]byte, error) { return json.Marshal(p.Val) }

type c19Parked struct {
	First c19Parker      `json:"first"`
	Rest  map[string]any `json:"rest"`
	Tail  string         `json:"tail"`
}

type c19Item struct {
	doc     []byte // the bytes on the wire
	valid   bool   // valid JSON for the target
	target  int    // 0 interface{}, 1 struct, 2 RawMessage, 3 []byte, 4 struct with a field whose UnmarshalJSON parks
	overLim bool
	cut     bool // the transport ends in the middle of this (fragmented) message
	cutBetween bool
	desc    string
}

func jsonEquivalent(a, b []byte) bool {
	var x, y any
	if json.Unmarshal(a, &x) != nil || json.Unmarshal(b, &y) != nil {
		return false
	}
	return reflect.DeepEqual(x, y)
}

type c19Unencodable struct{ v any }

type c19FailingMarshaler struct{}

func (c19FailingMarshaler) MarshalJSON() ([]byte, error) { return nil, errors.New("refuses to be encoded") }

func runC19(r *Run) {
	t := r.Tape
	nConns := 1 + t.Draw(3)
	r.S.MaxSteps = 60000
	r.S.Stick = []int{0, 60}[t.Draw(2)]
	bg := context.Background()
	type retained struct {
		conn   int
		target int
		val    any // pointer to the decoded target
		snap   []byte
		want   []byte
	}
	var kept []*retained
	type connState struct {
		rc     *rawConn
		items  []c19Item
		writes []any
		limit  int64
	}
	var conns []*connState
	for ci := 0; ci < nConns; ci++ {
		o := RawOpts{LibClient: t.Draw(2) == 1, Mode: modes[t.Draw(3)], Ext: extChoices[t.Draw(len(extChoices))]}
		rc, err := r.newRawConn(fmt.Sprintf("c%d", ci), o)
		if err != nil {
			r.Violate("handshake-failed", "raw", "%v", err)
			return
		}
		cs := &connState{rc: rc, limit: 32768}
		switch t.Weighted(5, 3, 2) {
		case 1:
			cs.limit = 200000
			rc.C.SetReadLimit(cs.limit)
		case 2:
			// a small limit: most documents exceed it, the read fails after limit+1
			// bytes have gone into the pooled buffer
			cs.limit = 64
			rc.C.SetReadLimit(cs.limit)
		}
		nItems := 1 + t.Draw(5)
		for i := 0; i < nItems; i++ {
			var it c19Item
			it.target = t.Draw(5)
			it.valid = true
			switch it.target {
			case 4:
				it.doc, _ = json.Marshal(map[string]any{"first": c19Strings[t.Draw(len(c19Strings))], "rest": map[string]any{"x": genJSONValue(t, 3, false)},
					"tail": strings.Repeat(c19Strings[t.Draw(len(c19Strings))]+"t", 1+t.Draw(200))})
			case 0, 2:
				big := cs.limit > 32768 && t.Pct(20)
				doc, _ := json.Marshal(genJSONValue(t, 4, big))
				it.doc = doc
			case 1:
				v := c19Struct{Name: c19Strings[t.Draw(len(c19Strings))], N: t.Draw(1000), Tags: []string{"a", c19Strings[t.Draw(len(c19Strings))]},
					Inner: map[string]any{"x": genJSONValue(t, 2, false)}, Raw: json.RawMessage(`{"r":[1,2,3]}`)}
				it.doc, _ = json.Marshal(v)
			case 3:
				b := Payload{Kind: 2, Len: t.Draw(200), Seed: t.U32()}.Bytes()
				it.doc, _ = json.Marshal(b) // base64 string
			}
			// make it invalid in some way (only as the last item: the connection is closed afterwards)
			if i == nItems-1 && t.Pct(45) {
				it.valid = false
				switch t.Draw(5) {
				case 0:
					if len(it.doc) > 1 {
						it.doc = it.doc[:len(it.doc)-1-t.Draw(len(it.doc)-1)] // truncated document
					} else {
						it.doc = []byte("{")
					}
					if json.Valid(it.doc) {
						it.doc = append(it.doc, '{')
					}
					it.desc = "truncated"
				case 1:
					it.doc = append(it.doc, []byte(" x")...)
					it.desc = "trailing-garbage"
				case 2:
					it.doc = []byte(`{"a":`)
					it.desc = "malformed"
				case 3:
					// well-formed JSON that the target rejects
					switch it.target {
					case 1:
						it.doc = []byte(`"a string"`)
						switch t.Draw(4) {
						case 1:
							it.doc = []byte(`{"name":"x","n":"not a number"}`)
						case 2:
							// (the decoder's error text for these is longer than a Close reason may be)
							it.doc = []byte(`{"name":"x","n":` + strings.Repeat("1234567890", 12) + `}`)
						case 3:
							it.doc = []byte(`{"name":"x","n":1,"tags":["a","b",{"an object where a string belongs":"` + strings.Repeat("long ", 30) + `"}]}`)
						}
					case 3:
						it.doc = []byte(`"!!! not base64 !!!"`)
					default:
						it.doc = []byte(`[1,2`)
					}
					it.desc = "wrong-type-or-malformed"
				default:
					it.doc = nil
					it.desc = "empty-message"
				}
			}
			// (a document that exceeds the limit fails with 1009 before anybody looks at its JSON)
			if int64(len(it.doc)) > cs.limit {
				it.overLim = true
			}
			if it.valid && !it.overLim && len(it.doc) >= 8 && t.Pct(12) {
				it.cut = true
				it.desc = "transport-cut-inside"
				if it.target == 0 && t.Pct(50) {
					// a number: every prefix of it is a valid document too; the peer is
					// gone exactly between the two fragments
					it.doc = []byte("1234567890123")
					it.cutBetween = true
					it.desc = "transport-cut-between-fragments"
				}
			}
			cs.items = append(cs.items, it)
			if !it.valid || it.overLim || it.cut {
				break
			}
		}
		for n := t.Draw(4); n > 0; n-- {
			if t.Pct(20) {
				// a value encoding/json cannot encode: Write must fail and send nothing
				bad := []any{math.NaN(), map[string]any{"deep": []any{1, "x", math.Inf(1)}}, make(chan int), []any{"a", func() {}}, c19FailingMarshaler{}}[t.Draw(5)]
				cs.writes = append(cs.writes, c19Unencodable{bad})
				continue
			}
			if t.Pct(15) {
				// top-level json.RawMessage values: nil encodes as null, valid bytes as
				// themselves, invalid bytes cannot be encoded
				switch t.Draw(4) {
				case 0:
					cs.writes = append(cs.writes, json.RawMessage(nil))
				case 1:
					cs.writes = append(cs.writes, json.RawMessage(`{"raw":[1,2,{"x":null}]}`))
				case 2:
					cs.writes = append(cs.writes, c19Unencodable{json.RawMessage(`{"raw":`)})
				default:
					cs.writes = append(cs.writes, c19Unencodable{json.RawMessage(`not json at all`)})
				}
				continue
			}
			cs.writes = append(cs.writes, genJSONValue(t, 3, false))
		}
		rc.Lib.In().RChunk = t.Weighted(4, 1, 2, 2, 2)
		conns = append(conns, cs)
	}
	r.Class = fmt.Sprintf("n%d", nConns)
	r.D("conns", nConns)
	var dd []string
	for _, cs := range conns {
		for _, it := range cs.items {
			dd = append(dd, fmt.Sprintf("t%d len%d valid=%v over=%v %s", it.target, len(it.doc), it.valid, it.overLim, it.desc))
		}
		dd = append(dd, fmt.Sprintf("writes=%d", len(cs.writes)))
	}
	r.D("items", dd)
	r.Nontrivial = true

	for ci, cs := range conns {
		ci, cs := ci, cs
		c, peer := cs.rc.C, cs.rc.Peer
		sigc := fmt.Sprintf("conn=%d", ci)
		_ = sigc
		// the peer sends the documents, one text message each
		var stream []byte
		for _, it := range cs.items {
			if it.cut {
				// two fragments, the peer is gone after a few bytes of the second
				h := len(it.doc) / 2
				b := peer.Encode(MessageFrames(MsgSpec{Typ: wsref.OpText, Data: it.doc, Frags: []int{h, len(it.doc) - h}}, nil)...)
				if it.cutBetween {
					first := peer.Encode(wsref.Frame{Fin: false, Opcode: wsref.OpText, Payload: it.doc[:h]})
					stream = append(stream, first...)
					continue
				}
				stream = append(stream, b[:len(b)-(len(it.doc)-h)/2-1]...)
				continue
			}
			stream = append(stream, peer.Encode(MessageFrames(MsgSpec{Typ: wsref.OpText, Data: it.doc, Frags: SplitFrags(t, len(it.doc))}, nil)...)...)
		}
		peer.Inject(stream)
		if cs.items[len(cs.items)-1].cut {
			cs.rc.Raw.CloseWrite()
			r.S.Count("probe.read-fails-with-bytes-in-the-pooled-buffer")
		}
		name := fmt.Sprintf("rd%d", ci)
		r.S.Go(name, func() {
			defer c.CloseNow()
			for i, it := range cs.items {
				r.S.Park("a." + name)
				var v any
				switch it.target {
				case 0:
					v = new(any)
				case 1:
					v = new(c19Struct)
				case 2:
					v = new(json.RawMessage)
				case 4:
					// decoding pauses inside the document while the other connections go on
					v = &c19Parked{First: c19Parker{park: func() {
						r.S.Count("probe.parked-inside-decode")
						r.S.Park("a." + name + ".decoding")
					}}}
				default:
					v = new([]byte)
				}
				err := wsjson.Read(bg, c, v)
				sig := fmt.Sprintf("target=%d,valid=%v,over=%v", it.target, it.valid, it.overLim)
				switch {
				case it.cut:
					if err == nil {
						r.Violate("truncated-document-accepted", sig, "document %d was cut by the transport after %d of its bytes but wsjson.Read returned nil", i, len(it.doc)/2)
					}
					return
				case it.overLim:
					if err == nil {
						r.Violate("over-limit-accepted", sig, "document %d of %d bytes exceeds the read limit %d but was decoded", i, len(it.doc), cs.limit)
					}
					return
				case !it.valid:
					if err == nil {
						r.Violate("invalid-json-accepted", sig+","+it.desc, "document %d (%s, %q) is not valid JSON for the target but wsjson.Read returned nil", i, it.desc, clipBytes(it.doc))
					}
					return
				case err != nil:
					r.Violate("valid-json-rejected", sig, "document %d (%q) failed: %v", i, clipBytes(it.doc), err)
					return
				}
				snap, merr := json.Marshal(v)
				if merr != nil {
					r.Violate("result-not-marshalable", sig, "%v", merr)
					return
				}
				if !jsonEquivalent(snap, it.doc) {
					r.Violate("decoded-value-differs", sig, "document %d decoded to %q, sent %q", i, clipBytes(snap), clipBytes(it.doc))
					return
				}
				kept = append(kept, &retained{conn: ci, target: it.target, val: v, snap: snap, want: it.doc})
			}
			// library-side writes, one value per message
			for i, v := range cs.writes {
				r.S.Park("a." + name + ".w")
				if u, bad := v.(c19Unencodable); bad {
					if err := wsjson.Write(bg, c, u.v); err == nil {
						r.Violate("unencodable-value-written", "write", "wsjson.Write of a value that cannot be encoded (%T) returned nil", u.v)
						return
					}
					r.S.Count("probe.unencodable-write")
					continue
				}
				if err := wsjson.Write(bg, c, v); err != nil {
					r.Violate("write-error", "write", "wsjson.Write %d failed: %v", i, err)
					return
				}
			}
		})
		echo := ci%2 == 0 // half of the peers answer a Close frame at once (Close then returns while other connections are still busy)
		r.S.Go(fmt.Sprintf("peer%d", ci), func() {
			if !echo {
				peer.Drain()
				return
			}
			seen := 0
			for {
				f := peer.Next(&seen)
				if f == nil {
					return
				}
				if f.Opcode == wsref.OpClose {
					peer.Send(wsref.Frame{Fin: true, Opcode: wsref.OpClose, Payload: f.Payload})
				}
			}
		})
	}
	r.S.Loop()
	if r.S.Aborted != "" {
		if r.S.Aborted == "sim-time" {
			r.Violate("stuck", "wsjson", "exchange did not finish: parked=%v", r.S.ParkedIDs())
		}
		return
	}
	if len(r.Viol) > 0 {
		return
	}
	// retained results must not have changed (no aliasing of pooled buffers)
	for _, k := range kept {
		now, _ := json.Marshal(k.val)
		if !bytes.Equal(now, k.snap) {
			r.Violate("decoded-result-changed-later", fmt.Sprintf("target=%d", k.target), "a value decoded on connection %d changed after later reads: was %q, now %q", k.conn, clipBytes(k.snap), clipBytes(now))
			return
		}
	}
	if len(kept) > 1 {
		r.S.Count("probe.retained-checked")
	}
	// what the peers saw
	for ci, cs := range conns {
		peer := cs.rc.Peer
		sig := "wire"
		dec := &wsref.Decoder{ExpectMasked: cs.rc.Opts.LibClient, Deflate: cs.rc.Neg.Deflate, Takeover: cs.rc.LibTake, KeepGoingAfterClose: true}
		var msgs []wsref.Event
		var closeCodes []int
		for _, f := range peer.Frames {
			for _, ev := range dec.Feed(f.Frame) {
				switch ev.Kind {
				case wsref.EvMsg:
					msgs = append(msgs, ev)
				case wsref.EvClose:
					closeCodes = append(closeCodes, ev.Code)
				case wsref.EvViolation:
					r.Violate("stream-violation", sig, "conn %d: %s", ci, ev.What)
					return
				}
			}
		}
		last := cs.items[len(cs.items)-1]
		readsOK := last.valid && !last.overLim
		if last.cut {
			// (the transport ended: nothing is expected on the wire)
		} else if readsOK {
			var good []any
			for _, v := range cs.writes {
				if _, bad := v.(c19Unencodable); !bad {
					good = append(good, v)
				}
			}
			if len(msgs) != len(good) {
				r.Violate("message-count", sig, "conn %d: %d successful wsjson.Write calls (%d failed ones for values that cannot be encoded) produced %d messages", ci, len(good), len(cs.writes)-len(good), len(msgs))
				return
			}
			for i, m := range msgs {
				want, _ := json.Marshal(good[i])
				if m.Type != wsref.OpText {
					r.Violate("not-a-text-message", sig, "conn %d: value %d was sent as message type %d", ci, i, m.Type)
				}
				if !jsonEquivalent(m.Payload, want) {
					r.Violate("written-json-differs", sig, "conn %d: value %d on the wire %q, written %q", ci, i, clipBytes(m.Payload), clipBytes(want))
				}
			}
		} else {
			wantCode := 1007
			if last.overLim {
				wantCode = 1009
			}
			found := false
			for _, c := range closeCodes {
				if c == wantCode {
					found = true
				}
			}
			if !found {
				r.Violate("close-code-missing", fmt.Sprintf("wire,want=%d,%s", wantCode, last.desc), "conn %d: expected a Close frame with status %d after the bad document (%s), saw close codes %v", ci, wantCode, last.desc, closeCodes)
			} else {
				r.S.Count(fmt.Sprintf("probe.close-%d", wantCode))
			}
		}
	}
}

func clipBytes(b []byte) string {
	if len(b) > 120 {
		return string(b[:120]) + "…"
	}
	return string(b)
}

var _ = websocket.MessageText
