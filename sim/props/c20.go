package props

import (
	"context"
	"fmt"
	"io"
	"regexp"
	"runtime"
	"strings"
	"testing/synctest"
	"time"

	"nhooyr.io/websocket"

	"verifsim/simrt"
	"verifsim/wsref"
)

// C20 — no goroutine outlives a closed connection.

func init() {
	register(&Prop{ID: "C20", Run: runC20, Quick: 12000, Thorough: 1000000, Level: "exploration"})
}

var bubbleRe = regexp.MustCompile(`synctest bubble (\d+)`)

// libGoroutines returns the stacks of goroutines of the current bubble that
// were created by the library (timeoutLoop, CloseRead's reader).
func libGoroutines() []string {
	buf := make([]byte, 1<<20)
	n := runtime.Stack(buf, true)
	blocks := strings.Split(string(buf[:n]), "\n\n")
	if len(blocks) == 0 {
		return nil
	}
	m := bubbleRe.FindStringSubmatch(blocks[0])
	if m == nil {
		return nil
	}
	tag := "synctest bubble " + m[1] + "]"
	var out []string
	for _, b := range blocks[1:] {
		first := b
		if i := strings.IndexByte(b, '\n'); i >= 0 {
			first = b[:i]
		}
		if !strings.Contains(first, tag) {
			continue
		}
		// (the context package's propagation goroutines only exist in this check for
		// the foreign context handed to NetConn)
		if strings.Contains(b, "created by nhooyr.io/websocket.") || strings.Contains(b, "context.(*cancelCtx).propagateCancel") {
			out = append(out, b)
		}
	}
	return out
}

// c20ForeignCtx is a context.Context implemented outside the context package.
type c20ForeignCtx struct {
	context.Context
	done chan struct{}
}

func (f *c20ForeignCtx) Done() <-chan struct{} { return f.done }

// c20YieldCtx is a context whose Done method yields the processor before it
// answers (it stays a context-package context for cancellation propagation).
type c20YieldCtx struct{ context.Context }

func (y c20YieldCtx) Done() <-chan struct{} {
	runtime.Gosched()
	return y.Context.Done()
}

var c20Endings = []string{"Close", "CloseNow", "peer-close-then-Close", "protocol-error-then-CloseNow", "ctx-expiry-then-Close", "cut-eof-then-Close", "cut-err-then-CloseNow", "silent-peer-Close", "peer-close-then-CloseNow", "closeread-data-then-Close", "closeread-partial-data-stall-then-CloseNow", "closeread-partial-data-stall-then-Close", "write-error-then-CloseNow", "write-error-then-Close", "Close-unsendable-code", "Close-oversize-reason", "Close-and-CloseNow-together-peer-slow-and-silent", "closeread-data-behind-a-stalled-write-then-CloseNow", "closeread-data-silent-peer-ping-during-handshake-then-CloseNow", "closeread-data-peer-window-closed-then-CloseNow"}

func runC20(r *Run) {
	t := r.Tape
	nConns := 1 + t.Draw(6)
	concurrent := t.Pct(25) // run pairs of connections concurrently
	r.DrawYields()
	r.S.MaxSim = 10 * time.Minute
	r.S.MaxSteps = 60000
	r.S.Stick = []int{0, 60}[t.Draw(2)]
	bg := context.Background()
	type connPlan struct {
		pair      bool
		libClient bool
		compress  bool
		closeRead bool
		crCancel  bool // the context given to CloseRead is cancelled before the ending
		netconn   bool
		abReader  bool
		abWriter  bool
		ping      bool
		writes    int
		ending    int
	}
	var plans []connPlan
	var desc []string
	for i := 0; i < nConns; i++ {
		p := connPlan{pair: t.Pct(25), libClient: t.Draw(2) == 1, compress: t.Draw(2) == 1,
			closeRead: t.Pct(40), crCancel: t.Pct(30), netconn: t.Pct(20), abReader: t.Pct(25), abWriter: t.Pct(25), ping: t.Pct(30), writes: t.Draw(3), ending: t.Draw(len(c20Endings))}
		if p.closeRead {
			p.abReader, p.netconn = false, false
		}
		if p.ending >= 9 && p.ending <= 11 || p.ending >= 17 {
			p.closeRead, p.abReader, p.netconn = true, false, false
		}
		if p.ending == 17 {
			p.abWriter = false
		}
		if p.ending >= 12 {
			p.abWriter = false
		}
		if p.pair && p.ending >= 2 {
			p.ending = p.ending % 2
		}
		plans = append(plans, p)
		desc = append(desc, fmt.Sprintf("%+v", p))
	}
	r.D("conns", desc)
	r.D("concurrent", concurrent)
	r.Class = fmt.Sprintf("n%d/conc%v/%s", nConns, concurrent, c20Endings[plans[0].ending])
	r.Nontrivial = true

	// leak checks are performed by the scheduler at a quiescent point
	type checkReq struct {
		label    string
		maxAllow int
		done     bool
		found    []string
	}
	var pending []*checkReq
	r.S.Quiesce = func() {
		for _, q := range pending {
			if !q.done {
				q.found = libGoroutines()
				q.done = true

			}
		}
	}
	openLib := 0 // upper bound of library goroutines that may legitimately exist
	closedConns := 0
	runConn := func(idx int, p connPlan, who string) {
		name := fmt.Sprintf("c%d", idx)
		sig := fmt.Sprintf("ending=%s,closeread=%v,abreader=%v,abwriter=%v,netconn=%v", c20Endings[p.ending], p.closeRead, p.abReader, p.abWriter, p.netconn)
		var c, other *websocket.Conn
		var peer *RawPeer
		var rc *rawConn
		mine := 1
		if p.closeRead {
			mine++
		}
		if p.pair {
			mine++ // the other endpoint's timeoutLoop
		}
		// (counted before the connection exists: its goroutines start inside the
		// handshake, and a connection that runs concurrently may reach its check
		// while this goroutine is parked there)
		openLib += mine
		if p.pair {
			o := PairOpts{}
			if p.compress {
				o.CMode, o.SMode = websocket.CompressionContextTakeover, websocket.CompressionContextTakeover
			}
			cli, srv, _, _, err := r.LibPair(name, o)
			if err != nil {
				r.Violate("handshake-failed", sig, "%v", err)
				return
			}
			c, other = cli, srv
			if !p.libClient {
				c, other = srv, cli
			}
			r.S.Go(who+".other", func() {
				for {
					if _, _, err := other.Read(bg); err != nil {
						return
					}
				}
			})
		} else {
			o := RawOpts{LibClient: p.libClient}
			if p.compress {
				o.Mode, o.Ext = websocket.CompressionContextTakeover, "permessage-deflate"
			}
			var err error
			rc, err = r.newRawConn(name, o)
			if err != nil {
				r.Violate("handshake-failed", sig, "%v", err)
				return
			}
			c, peer = rc.C, rc.Peer
			if p.writes == 2 && p.ending != 16 {
				// a transport whose Close lingers for 8 s
				rc.Lib.CloseDelay = 8 * time.Second
			}
			// cooperative raw peer: answers pings, echoes Close
			peerEcho := p.ending != 7 && p.ending != 16 && p.ending != 18 && p.ending != 19
			r.S.Go(who+".peer", func() {
				seen := 0
				for {
					f := peer.Next(&seen)
					if f == nil {
						return
					}
					switch f.Opcode {
					case wsref.OpPing:
						peer.Send(wsref.Frame{Fin: true, Opcode: wsref.OpPong, Payload: f.Payload})
					case wsref.OpClose:
						if peerEcho {
							peer.Send(wsref.Frame{Fin: true, Opcode: wsref.OpClose, Payload: f.Payload})
						}
					}
				}
			})
		}
		// ---- prior operations
		var crCtx context.Context
		crCancel := func() {}
		if p.closeRead {
			uctx, cancel := context.WithCancel(bg)
			crCancel = cancel
			if (idx+p.writes+p.ending)%3 == 0 {
				// two goroutines call CloseRead for the first time at once, with a context
				// whose Done method gives the processor away (a context implementation of
				// the application's own): the second caller runs while the first is inside
				// the call. There must still be one reader goroutine, and it must be the
				// one that Close and CloseNow wait for.
				yctx := c20YieldCtx{uctx}
				second := make(chan struct{})
				go func() {
					defer close(second)
					c.CloseRead(yctx)
				}()
				crCtx = c.CloseRead(yctx)
				<-second
				r.S.Count("probe.two-first-closeread-calls-at-once")
			} else {
				crCtx = c.CloseRead(uctx)
			}
		}
		var nc io.ReadWriteCloser
		if p.netconn {
			// the application's context is not one of the context package's own types:
			// the adapter's derived read and write contexts then each need a goroutine
			// (started inside NetConn) that only the adapter's Close ends
			fctx := &c20ForeignCtx{Context: bg, done: make(chan struct{})}
			n := websocket.NetConn(fctx, c, websocket.MessageBinary)
			n.SetDeadline(time.Now().Add(time.Hour))
			nc = n
			mine += 2
			openLib += 2
		}
		for i := 0; i < p.writes; i++ {
			r.S.Park("a." + who + ".w")
			var err error
			if nc != nil {
				_, err = nc.Write([]byte("netconn data"))
			} else {
				err = c.Write(bg, websocket.MessageText, Payload{Kind: 3, Len: 300, Seed: uint32(i)}.Bytes())
			}
			if err != nil {
				r.Violate("write-error", sig, "write %d failed: %v", i, err)
				return
			}
		}
		if p.ping && p.closeRead && !p.pair {
			if p.writes%2 == 1 {
				// pongs nobody asked for, before and after the ping
				peer.Send(wsref.Frame{Fin: true, Opcode: wsref.OpPong, Payload: []byte("x")}, wsref.Frame{Fin: true, Opcode: wsref.OpPong, Payload: []byte("1")})
				r.S.Count("probe.unsolicited-pongs-in-history")
			}
			ctx, cancel := context.WithTimeout(bg, 10*time.Second)
			c.Ping(ctx)
			cancel()
			if p.writes%2 == 1 {
				peer.Send(wsref.Frame{Fin: true, Opcode: wsref.OpPong, Payload: []byte("1")})
			}
		}
		if p.abWriter {
			w, err := c.Writer(bg, websocket.MessageBinary)
			if err == nil {
				w.Write([]byte("half a message"))
			}
		}
		if p.abReader && !p.pair {
			// a message whose second fragment never comes; read a few bytes of it
			peer.Inject(peer.Encode(wsref.Frame{Fin: false, Opcode: wsref.OpBinary, Payload: []byte("first fragment of an abandoned message")}))
			_, rd, err := c.Reader(bg)
			if err == nil {
				rd.Read(make([]byte, 5))
			}
		}
		// ---- ending
		foreignRead := false
		readOnce := func(timeout time.Duration) error {
			ctx, cancel := context.WithTimeout(bg, timeout)
			defer cancel()
			if p.closeRead {
				select {
				case <-crCtx.Done():
				case <-ctx.Done():
				}
				r.S.Kick()
				return ctx.Err()
			}
			if p.abReader {
				// the open message has to be finished by the same reader
				return nil
			}
			if foreignRead {
				// the application's context is of a type of its own: every context the
				// library derives from it needs a goroutine of the context package, which
				// has to be gone with the connection like the library's own
				_, _, err := c.Read(&c20ForeignCtx{Context: ctx, done: make(chan struct{})})
				return err
			}
			_, _, err := c.Read(ctx)
			return err
		}
		r.S.Park("a." + who + ".end")
		if p.crCancel && p.ending <= 1 {
			// the caller's context ends first (this alone closes the connection)
			crCancel()
			r.S.Park("a." + who + ".end2")
		}
		defer crCancel()
		var cerr error
		switch p.ending {
		case 0, 7:
			if nc != nil && p.ending == 0 {
				cerr = nc.Close() // (closes the connection with 1000)
				break
			}
			cerr = c.Close(websocket.StatusNormalClosure, "done")
		case 1:
			cerr = c.CloseNow()
		case 2, 8:
			if p.pair {
				other.Close(websocket.StatusGoingAway, "peer")
			} else {
				peer.Send(wsref.Frame{Fin: true, Opcode: wsref.OpClose, Payload: wsref.ClosePayload(1001, "peer")})
			}
			readOnce(10 * time.Second)
			if p.ending == 2 {
				cerr = c.Close(websocket.StatusNormalClosure, "done")
			} else {
				cerr = c.CloseNow()
			}
		case 3:
			peer.Send(wsref.Frame{Fin: true, Opcode: wsref.OpText, Rsv2: true, Payload: []byte("x")})
			readOnce(10 * time.Second)
			cerr = c.CloseNow()
		case 4:
			readOnce(time.Second)
			cerr = c.Close(websocket.StatusNormalClosure, "done")
		case 5, 6:
			in := rc.Lib.In()
			extra := 0
			if !p.closeRead && !p.abReader && (idx+p.writes)%2 == 0 {
				// the transport ends inside the payload of a control frame, and the read
				// that meets it runs under a context of a foreign type
				b := peer.Encode(wsref.Frame{Fin: true, Opcode: wsref.OpPing, Payload: []byte("12345")})
				peer.Inject(b[:len(b)-3])
				extra = len(b) - 3
				foreignRead = true
				// (one goroutine of the context package may exist while the control frame
				// is being handled: allowed for in the checks of connections that run
				// concurrently, and expected to be gone at this connection's own check)
				mine++
				openLib++
				r.S.Count("probe.cut-inside-a-control-payload-under-a-foreign-context")
			}
			r.S.Lock()
			in.CutAt = in.Delivered + int64(extra)
			in.CutErr = io.EOF
			if p.ending == 6 {
				in.CutErr = simrt.ErrReset
			}
			r.S.Unlock()
			r.S.Kick()
			readOnce(10 * time.Second)
			if p.ending == 5 {
				cerr = c.Close(websocket.StatusNormalClosure, "done")
			} else {
				cerr = c.CloseNow()
			}
		case 10, 11:
			// the header of a data frame and part of its payload, then silence
			b := peer.Encode(wsref.Frame{Fin: true, Opcode: wsref.OpBinary, Payload: make([]byte, 100)})
			peer.SendBytes(b[:len(b)-60])
			r.S.Sleep(time.Second)
			if p.ending == 10 {
				cerr = c.CloseNow()
			} else {
				cerr = c.Close(websocket.StatusNormalClosure, "done")
			}
		case 17:
			// An application write is stuck in the transport (the peer does not read)
			// when a data message makes CloseRead's goroutine start its close handshake:
			// that handshake cannot even write its Close frame. Whatever it does, the
			// connection must end up closed, and CloseNow must leave nothing behind.
			held17 := true
			peer.Hold = func() bool { return held17 }
			rc.Lib.Out().Cap = rc.Lib.Out().Buffered()
			rc.Lib.Out().HardCap = true
			r.S.Go(fmt.Sprintf("%s.stuckwriter%d", who, idx), func() {
				c.Write(bg, websocket.MessageBinary, Payload{Kind: 2, Len: 3000, Seed: 7}.Bytes())
			})
			r.S.ParkE("a."+who+".stuck", func() bool { return rc.Lib.InWriteLocked() || rc.Lib.ClosedLocked() }, nil)
			peer.Inject(peer.Encode(wsref.Frame{Fin: true, Opcode: wsref.OpText, Payload: []byte("unexpected data")}))
			r.S.Sleep(7 * time.Second)
			cerr = c.CloseNow()
			held17 = false
			r.S.Kick()
			r.S.Count("probe.closeread-handshake-behind-stalled-write")
		case 18:
			// CloseRead's goroutine is in its own close handshake (a data message arrived,
			// the peer stays silent); meanwhile the application pings, which is allowed
			// after the Close frame and whose frame write completes. The handshake must
			// still give up after its 5 s, and a later CloseNow must leave nothing behind.
			peer.Inject(peer.Encode(wsref.Frame{Fin: true, Opcode: wsref.OpText, Payload: []byte("unexpected data")}))
			r.S.Sleep(time.Second)
			pctx, pcancel := context.WithTimeout(bg, time.Second)
			c.Ping(pctx)
			pcancel()
			if p.writes > 0 {
				c.Write(bg, websocket.MessageText, []byte("refused after the close frame"))
			}
			r.S.Sleep(5 * time.Second)
			cerr = c.CloseNow()
			r.S.Count("probe.ping-during-closeread-handshake")
		case 19:
			// The peer sends a data message and takes nothing more: CloseRead's own
			// Close frame (1008) cannot even leave the write buffer. Its write must
			// time out and close the connection; CloseNow must leave nothing behind.
			held19 := true
			peer.Hold = func() bool { return held19 }
			rc.Lib.Out().Cap = rc.Lib.Out().Buffered()
			rc.Lib.Out().HardCap = true
			peer.Inject(peer.Encode(wsref.Frame{Fin: true, Opcode: wsref.OpText, Payload: []byte("unexpected data")}))
			r.S.Sleep(7 * time.Second)
			cerr = c.CloseNow()
			held19 = false
			r.S.Kick()
			r.S.Count("probe.closeread-close-frame-against-a-closed-window")
		case 16:
			if p.pair {
				cerr = c.Close(websocket.StatusNormalClosure, "done")
				break
			}
			// The peer takes the Close frame off the wire only after 3 s and never
			// answers; a second goroutine calls CloseNow while that Close is under way.
			held := true
			peer.Hold = func() bool { return held }
			rc.Lib.Out().Cap = rc.Lib.Out().Buffered()
			rc.Lib.Out().HardCap = true
			time.AfterFunc(3*time.Second, func() {
				held = false
				rc.Lib.Out().Cap = 1 << 30
				r.S.Kick()
			})
			firstDone := false
			r.S.Go(fmt.Sprintf("%s.closer%d", who, idx), func() {
				c.Close(websocket.StatusNormalClosure, "done")
				firstDone = true
			})
			if !p.closeRead && p.writes != 1 {
				// a third goroutine calls CloseRead for the first time while both
				// closers are already waiting (one more goroutine of this connection
				// for the checks of connections that run concurrently)
				mine++
				openLib++
				r.S.Go(fmt.Sprintf("%s.latecr%d", who, idx), func() {
					r.S.Sleep(700 * time.Millisecond)
					c.CloseRead(bg)
					r.S.Count("probe.closeread-called-while-closers-wait")
				})
			}
			r.S.Sleep(500 * time.Millisecond)
			cerr = c.CloseNow()
			r.S.Count("probe.closenow-during-slow-close")
			_ = firstDone
		case 14:
			cerr = c.Close(websocket.StatusCode([]int{1005 + 1, 999, 5000, 1015}[idx%4]), "invalid code")
		case 15:
			cerr = c.Close(websocket.StatusInternalError, strings.Repeat("long reason ", 12))
		case 12, 13:
			// the transport fails a write half way (short write + error)
			out := rc.Lib.Out()
			r.S.Lock()
			out.WErrAt = out.Written + 100
			r.S.Unlock()
			werr := c.Write(bg, websocket.MessageBinary, Payload{Kind: 2, Len: 5000, Seed: 1}.Bytes())
			if werr == nil {
				r.Violate("write-error-swallowed", sig, "a transport write error in the middle of a frame was not reported by Write")
			}
			if p.ending == 12 {
				cerr = c.CloseNow()
			} else {
				cerr = c.Close(websocket.StatusNormalClosure, "done")
			}
		case 9:
			peer.Send(wsref.Frame{Fin: true, Opcode: wsref.OpText, Payload: []byte("unexpected data")})
			<-crCtx.Done()
			r.S.Kick()
			cerr = c.Close(websocket.StatusNormalClosure, "done")
		}
		_ = cerr
		if nc != nil {
			// an application closes the net.Conn it was given, whatever ended the connection
			nc.Close()
		}
		if p.pair {
			other.CloseNow()
		}
		openLib -= mine
		closedConns++
		// quiescent check: no library goroutine of this connection may be left
		q := &checkReq{label: name, maxAllow: openLib}
		pending = append(pending, q)
		r.S.Park("a." + who + ".check")
		if !q.done {
			r.Violate("harness-check-not-run", sig, "leak check did not run")
			return
		}
		if len(q.found) > q.maxAllow {
			r.S.Count("probe.leak-detected")
			r.Violate("goroutine-outlives-connection", sig, "after %s returned on connection %d, %d library goroutines exist in the bubble although at most %d belong to connections that are still open:\n%s",
				c20Endings[p.ending], idx, len(q.found), q.maxAllow, clip(strings.Join(q.found, "\n\n")))
		}
	}
	if concurrent && nConns >= 2 {
		half := nConns / 2
		r.S.Go("run0", func() {
			for i := 0; i < half; i++ {
				runConn(i, plans[i], "run0")
			}
		})
		r.S.Go("run1", func() {
			for i := half; i < nConns; i++ {
				runConn(i, plans[i], "run1")
			}
		})
	} else {
		r.S.Go("run0", func() {
			for i, p := range plans {
				runConn(i, p, "run0")
			}
		})
	}
	r.S.Loop()
	if r.S.Aborted == "sim-time" {
		r.Violate("stuck", "history", "history did not finish: parked=%v", r.S.ParkedIDs())
		return
	}
	if r.S.Aborted != "" {
		return
	}
	// final: everything was closed by the workload
	synctest.Wait()
	if closedConns == nConns {
		if left := libGoroutines(); len(left) > 0 {
			r.Violate("goroutine-outlives-connection", "final", "%d library goroutines are left after all %d connections were closed:\n%s", len(left), nConns, clip(strings.Join(left, "\n\n")))
		}
	}
}

// blockedInLibrary summarises (function names only) the goroutines of the current
// bubble that are inside a library call: used in "stuck" reports, where the
// scheduler's parked list cannot show calls blocked on the library's own channels.
func blockedInLibrary() []string {
	buf := make([]byte, 1<<20)
	n := runtime.Stack(buf, true)
	blocks := strings.Split(string(buf[:n]), "\n\n")
	if len(blocks) == 0 {
		return nil
	}
	m := bubbleRe.FindStringSubmatch(blocks[0])
	if m == nil {
		return nil
	}
	tag := "synctest bubble " + m[1] + "]"
	var out []string
	for _, b := range blocks[1:] {
		lines := strings.Split(b, "\n")
		if !strings.Contains(lines[0], tag) || !strings.Contains(b, "nhooyr.io/websocket.") {
			continue
		}
		var fns []string
		for _, l := range lines[1:] {
			if strings.HasPrefix(l, "\t") || strings.HasPrefix(l, "created by") {
				continue
			}
			if i := strings.LastIndexByte(l, '('); i > 0 {
				l = l[:i]
			}
			l = strings.TrimPrefix(l, "nhooyr.io/websocket.")
			fns = append(fns, l)
			if len(fns) == 7 {
				break
			}
		}
		out = append(out, strings.Join(fns, " < "))
	}
	return out
}
