package props

import (
	"errors"
	"strconv"
	"bytes"
	"context"
	"fmt"
	"time"

	"nhooyr.io/websocket"

	"verifsim/wsref"
)

// C15 — Ping waits for its own Pong; received Pings are answered in order
// with the same payload.

func init() {
	register(&Prop{ID: "C15", Run: runC15, Quick: 15000, Thorough: 1500000, Level: "exploration"})
}

var c15Policies = []string{"in-order", "reversed", "shuffled", "duplicated", "one-withheld", "foreign-first", "delayed", "all-withheld", "lookalike-only"}

type pingCall struct {
	name        string
	timeout     time.Duration
	invoke, ret int
	invokeAt    time.Duration
	retAt       time.Duration
	err         error
	done        bool
	early       bool // failed with a deadline error while its own context was alive
}

type pongSent struct {
	payload string
	step    int
}

func (p pongSent) String() string { return fmt.Sprintf("%q@%d", p.payload, p.step) }

func runC15(r *Run) {
	t := r.Tape
	rc, err := r.drawRawConn("c0", 0)
	if err != nil {
		r.Violate("handshake-failed", "raw", "handshake failed: %v", err)
		return
	}
	c, peer := rc.C, rc.Peer
	nPing := t.Draw(7)
	policy := t.Draw(len(c15Policies))
	useCloseRead := t.Draw(2) == 1
	nInbound := t.Draw(8)
	r.DrawYields()
	nWriters := t.Draw(3)
	unsolicited := t.Pct(35)
	// stallFirst: for the first 2.5 s the peer does not read and the pipe is full, so
	// the first round of Ping calls is stuck writing while pongs that guess their
	// payloads arrive; a second round of pings after the stall gets no pongs at all
	stallFirst := t.Pct(20)
	inMsgs := 0
	if !useCloseRead {
		inMsgs = t.Draw(3)
	}
	if nPing == 0 && nInbound == 0 {
		nInbound = 1
	}
	rc.Lib.Out().Cap = []int{1 << 30, 4096, 256}[t.Draw(3)]
	rc.Lib.Out().WChunk = t.Weighted(4, 1, 2, 2, 2)
	rc.Lib.In().RChunk = t.Weighted(4, 1, 2, 2, 2)
	r.S.Stick = []int{0, 60, 90}[t.Draw(3)]
	r.S.MaxSteps = 40000
	r.S.MaxSim = 3 * time.Minute
	bg := context.Background()

	sig := fmt.Sprintf("policy=%s,closeread=%v", c15Policies[policy], useCloseRead)
	r.Class = fmt.Sprintf("%s/p%d/in%d/w%d/cli%v", sig, nPing, nInbound, nWriters, rc.Opts.LibClient)
	r.D("role_lib_client", rc.Opts.LibClient)
	r.D("ext", rc.Opts.Ext)
	r.D("pings", nPing)
	r.D("policy", c15Policies[policy])
	r.D("closeread", useCloseRead)
	r.D("inbound_pings", nInbound)
	r.D("inbound_msgs", inMsgs)
	r.D("writers", nWriters)
	r.D("unsolicited", unsolicited)
	r.Nontrivial = true

	// late mode: the run ends with a close handshake instead of CloseNow, and the
	// peer sends pings between receiving the library's Close frame and echoing it:
	// the connection is still being read, so they have to be answered
	lateMode := t.Pct(30) && !stallFirst && policy != 6
	// the delayed policy answers after 2 s, or after more than any time limit the
	// library may apply to its own control frames: a Ping whose context outlives
	// the delay still has to wait for its pong
	pongDelay := []time.Duration{2 * time.Second, 6500 * time.Millisecond}[t.Draw(2)]
	lateSent, lateN := false, 1+t.Draw(3)
	// mixed: half of the stall-first runs have no guessed pongs and give every
	// other first-round ping a context that outlives the stall, so that some pings
	// are still outstanding when the second round starts
	mixed := stallFirst && t.Pct(50)
	stalled := false
	if stallFirst {
		unsolicited = !mixed
		stalled = true
		sig += ",stall-first"
		rc.Lib.Out().Cap = 0
		rc.Lib.Out().HardCap = true
		time.AfterFunc(2500*time.Millisecond, func() {
			stalled = false
			rc.Lib.Out().Cap = 4096
			r.S.Kick()
		})
		r.S.Count("fault.peer-stall-at-start")
	}
	if stallFirst {
		r.S.Go("blocker", func() {
			c.Write(bg, websocket.MessageBinary, Payload{Kind: 2, Len: 3000, Seed: 77}.Bytes())
		})
	}
	// ---- library side
	nCalls := nPing
	if stallFirst {
		nCalls = 2 * nPing
	}
	calls := make([]*pingCall, nCalls)
	live := 0
	for i := range calls {
		pc := &pingCall{name: fmt.Sprintf("ping%d", i), timeout: []time.Duration{30 * time.Second, time.Second, 3 * time.Second}[t.Draw(3)]}
		if stallFirst {
			pc.timeout = time.Second
		}
		second := i >= nPing
		if mixed && !second && i%2 == 1 {
			pc.timeout = 6 * time.Second
		}
		calls[i] = pc
		live++
		r.S.Go(pc.name, func() {
			defer func() { live-- }()
			r.S.Park("a." + pc.name)
			if stallFirst && !second {
				// queue behind the data write that is stuck in the transport (a context
				// that ends while waiting for the frame lock does not close the connection)
				r.S.ParkE("a."+pc.name+".behind", func() bool { return rc.Lib.InWriteLocked() || rc.Lib.ClosedLocked() }, nil)
			}
			if second {
				r.S.Sleep(3 * time.Second) // after the stall and after the first round has failed
				// (all second-round actors wake at the same instant: who goes first is the scheduler's choice, not the runtime's)
				r.S.Park("a." + pc.name + ".go")
			}
			ctx, cancel := context.WithTimeout(bg, pc.timeout)
			defer cancel()
			pc.invoke, pc.invokeAt = r.S.Step(), r.S.Now()
			pc.err = c.Ping(ctx)
			pc.ret, pc.retAt = r.S.Step(), r.S.Now()
			pc.early = pc.err != nil && ctx.Err() == nil && errors.Is(pc.err, context.DeadlineExceeded)
			pc.done = true
		})
	}
	var readErr error
	gotMsgs := 0
	if useCloseRead {
		c.CloseRead(bg)
	} else {
		live++
		r.S.Go("reader", func() {
			defer func() { live-- }()
			for {
				_, _, err := c.Read(bg)
				if err != nil {
					readErr = err
					return
				}
				gotMsgs++
			}
		})
	}
	for i := 0; i < nWriters; i++ {
		name := fmt.Sprintf("w%d", i)
		data := Payload{Kind: 3, Len: []int{10, 700, 5000}[t.Draw(3)], Seed: uint32(i + 3)}.Bytes()
		live++
		r.S.Go(name, func() {
			defer func() { live-- }()
			for j := 0; j < 6; j++ {
				r.S.Park("a." + name)
				if err := c.Write(bg, websocket.MessageBinary, data); err != nil {
					return
				}
			}
		})
	}

	// ---- the peer
	var sentPongs []pongSent
	var sentPings [][]byte
	sendPong := func(p []byte) {
		sentPongs = append(sentPongs, pongSent{string(p), r.S.Step()})
		peer.Send(wsref.Frame{Fin: true, Opcode: wsref.OpPong, Payload: p})
	}
	// inbound script: pings before / between / inside messages
	var comp *wsref.Deflater
	if rc.Neg.Deflate {
		comp = &wsref.Deflater{Takeover: rc.PeerTake}
	}
	var inbound [][]wsref.Frame // bursts
	{
		left := nInbound
		mk := func() wsref.Frame {
			p := pingPayload(t, fmt.Sprintf("in%d-", left))
			sentPings = append(sentPings, p)
			left--
			return wsref.Frame{Fin: true, Opcode: wsref.OpPing, Payload: p}
		}
		for m := 0; m < inMsgs; m++ {
			spec := MsgSpec{Typ: wsref.OpText, Data: Payload{Kind: 3, Len: 20 + t.Draw(400), Seed: t.U32()}.Bytes(), Compress: comp != nil && t.Draw(2) == 1}
			spec.Frags = SplitFrags(t, len(spec.Data))
			var burst []wsref.Frame
			if left > 0 && t.Draw(2) == 1 {
				burst = append(burst, mk())
			}
			for j, f := range MessageFrames(spec, comp) {
				burst = append(burst, f)
				if !f.Fin && left > 0 && t.Draw(2) == 1 {
					burst = append(burst, mk())
				}
				_ = j
			}
			inbound = append(inbound, burst)
		}
		for left > 0 {
			var burst []wsref.Frame
			for k := 1 + t.Draw(3); k > 0 && left > 0; k-- {
				burst = append(burst, mk())
			}
			inbound = append(inbound, burst)
		}
	}
	idleGaps := make([]time.Duration, 4)
	for i := range idleGaps {
		idleGaps[i] = []time.Duration{0, 0, 0, 5500 * time.Millisecond, 20 * time.Second}[t.Draw(5)]
	}
	shuffleSeed := t.U32()
	withhold := t.Draw(7)
	peerWrDone := false
	r.S.Go("peer-wr", func() {
		if unsolicited {
			// guesses of the library's ping payloads, before any ping was sent
			guesses := []string{"1", "2", "", "x"}
			if stallFirst {
				guesses = []string{"1", "2", "3", "4", "5", "6", "1", "2"}
			}
			for _, p := range guesses {
				sendPong([]byte(p))
			}
		}
		for i, burst := range inbound {
			r.S.Park("a.peer-wr")
			// the connection may have been idle (the reader waiting) for longer
			// than any per-frame time limit of the library before the burst arrives
			if g := idleGaps[i%len(idleGaps)]; g > 0 {
				r.S.Sleep(g)
				r.S.Count("probe.idle-before-burst")
			}
			peer.Send(burst...)
		}
		peerWrDone = true
	})
	peerDone := false
	_ = peerDone
	if stallFirst {
		peer.Hold = func() bool { return stalled }
	}
	r.S.Go("peer-rd", func() {
		defer func() { peerDone = true }()
		seen := 0
		var pending [][]byte
		flush := func() {
			ps := pending
			pending = nil
			switch policy {
			case 1:
				for i, j := 0, len(ps)-1; i < j; i, j = i+1, j-1 {
					ps[i], ps[j] = ps[j], ps[i]
				}
			case 2:
				for i := len(ps) - 1; i > 0; i-- {
					j := int(shuffleSeed>>uint(i%16)) % (i + 1)
					ps[i], ps[j] = ps[j], ps[i]
				}
			}
			for i, p := range ps {
				switch policy {
				case 3:
					sendPong(p)
					sendPong(p)
				case 4:
					if i == withhold%len(ps) {
						continue
					}
					sendPong(p)
				case 5:
					sendPong([]byte("never-sent"))
					sendPong(nil)
					if len(sentPongs) > 3 {
						sendPong([]byte(sentPongs[0].payload)) // payload of an earlier (finished) ping
					}
					sendPong(p)
				case 6:
					r.S.Sleep(pongDelay)
					sendPong(p)
				case 7:
				case 8:
					// payloads that resemble the ping's without being it (other
					// spellings of the same number, padded, truncated, extended):
					// none of them may complete the ping
					q := string(p)
					for _, v := range []string{"0" + q, "+" + q, q + " ", " " + q, q + "\x00", "00000" + q, q + "0", q + ".0", "4294967296", "0x" + q} {
						sendPong([]byte(v))
					}
					if len(q) > 0 {
						sendPong([]byte(q[:len(q)-1]))
						sendPong([]byte(q[1:]))
					}
					if n, err := strconv.Atoi(q); err == nil {
						sendPong([]byte(strconv.Itoa(n + 1<<32)))
						sendPong([]byte(strconv.Itoa(n - 1<<32)))
						sendPong([]byte(fmt.Sprintf("%x", n+10)))
					}
					r.S.Count("probe.lookalike-pongs")
				default:
					sendPong(p)
				}
			}
		}
		for {
			f := peer.Next(&seen)
			if f == nil {
				return
			}
			if f.Opcode == wsref.OpClose && lateMode && !lateSent && len(f.Payload) >= 2 && int(f.Payload[0])<<8|int(f.Payload[1]) == 1000 {
				for i := 0; i < lateN; i++ {
					p := []byte(fmt.Sprintf("late-%d", i))
					sentPings = append(sentPings, p)
					peer.Send(wsref.Frame{Fin: true, Opcode: wsref.OpPing, Payload: p})
				}
				peer.Send(wsref.Frame{Fin: true, Opcode: wsref.OpClose, Payload: f.Payload})
				lateSent = true
				r.S.Count("probe.pings-after-own-close-frame")
				continue
			}
			if f.Opcode != wsref.OpPing {
				continue
			}
			if stallFirst {
				// nothing is answered in this mode: the first round has given up by the
				// time the peer reads again, the second round's pongs are withheld
				continue
			}
			pending = append(pending, f.Payload)
			batch := policy == 1 || policy == 2
			if !batch || len(pending) >= nPing || seen >= len(peer.Frames) && rc.Raw.In().Buffered() == 0 && len(pending) >= 2 {
				flush()
			}
		}
	})
	// batched policies: make sure withheld batches are flushed eventually by
	// closing after every ping call has returned.
	r.S.Go("finisher", func() {
		r.S.ParkE("a.finisher", func() bool {
			for _, pc := range calls {
				if !pc.done {
					return false
				}
			}
			return peerWrDone
		}, nil)
		r.S.Sleep(3 * time.Second) // let inbound pings be answered
		r.S.Park("a.finisher.close")
		if lateMode {
			c.Close(websocket.StatusNormalClosure, "bye")
			return
		}
		c.CloseNow()
	})
	r.S.Loop()
	if r.S.Aborted != "" {
		if r.S.Aborted == "sim-time" {
			r.Violate("stuck", sig, "a Ping call did not return: parked=%v", r.S.ParkedIDs())
		}
		return
	}
	if peer.ParseErr != nil {
		r.Violate("unparsable", sig, "emitted bytes do not parse: %v", peer.ParseErr)
		return
	}
	checkEmitted(r, sig, peer.Frames, rc.Opts.LibClient, rc.Neg, rc.LibTake)
	if len(r.Viol) > 0 {
		return
	}
	// ---- outbound pings: match nil returns to ponged payloads
	type seenPing struct {
		payload string
		step    int
	}
	var seenPings []seenPing
	for _, f := range peer.Frames {
		if f.Opcode == wsref.OpPing {
			seenPings = append(seenPings, seenPing{string(f.Payload), f.Step})
			if len(f.Payload) > 125 {
				r.Violate("ping-too-long", sig, "Ping frame with %d bytes", len(f.Payload))
			}
		}
	}
	// two outstanding pings cannot each be matched to their own pong if they carry the
	// same payload: a payload may only repeat once every call that could have sent
	// its earlier frame has returned
	for i, a := range seenPings {
		for _, b := range seenPings[i+1:] {
			if a.payload != b.payload {
				continue
			}
			senders, stillOut := 0, 0
			for _, pc := range calls {
				if pc.invoke <= a.step && (!pc.done || pc.ret >= a.step) {
					senders++
					if !pc.done || pc.ret >= b.step {
						stillOut++
					}
				}
			}
			if senders > 0 && senders == stillOut {
				r.Violate("ping-payload-reused-while-outstanding", sig, "two Ping frames with payload %q were emitted at steps %d and %d while the call that sent the first one had not returned", a.payload, a.step, b.step)
				return
			}
		}
	}
	var okCalls []*pingCall
	for _, pc := range calls {
		if !pc.done {
			r.Violate("ping-never-returned", sig, "%s did not return", pc.name)
			continue
		}
		if pc.err == nil {
			okCalls = append(okCalls, pc)
		} else if late := pc.retAt - pc.invokeAt - pc.timeout; late > time.Second {
			r.Violate("ping-error-late", sig, "%s returned its error %v after its %v context ended", pc.name, late, pc.timeout)
		}
	}
	// candidate payloads for a call: a pong with that payload was sent by the
	// peer inside [invoke, ret] and the payload belongs to a ping frame the
	// library emitted.
	emitted := map[string]bool{}
	for _, sp := range seenPings {
		emitted[sp.payload] = true
	}
	cands := make([][]string, len(okCalls))
	for i, pc := range okCalls {
		seenP := map[string]bool{}
		for _, ps := range sentPongs {
			// (a pong sent before the call started may still be in flight and be
			// received during the call, so there is no lower bound on its send step)
			if ps.step <= pc.ret && emitted[ps.payload] && !seenP[ps.payload] {
				seenP[ps.payload] = true
				cands[i] = append(cands[i], ps.payload)
			}
		}
	}
	used := map[string]bool{}
	var match func(i int) bool
	match = func(i int) bool {
		if i == len(okCalls) {
			return true
		}
		for _, p := range cands[i] {
			if !used[p] {
				used[p] = true
				if match(i + 1) {
					return true
				}
				used[p] = false
			}
		}
		return false
	}
	if !match(0) {
		desc := ""
		for i, pc := range okCalls {
			desc += fmt.Sprintf("%s[steps %d..%d cands=%q] ", pc.name, pc.invoke, pc.ret, cands[i])
		}
		r.Violate("ping-nil-without-own-pong", sig, "%d Ping calls returned nil but they cannot be matched to distinct ponged payloads: %s; pongs sent: %v", len(okCalls), desc, sentPongs)
	}
	if len(okCalls) > 0 {
		r.S.Count("probe.ping-ok")
	}
	// a Ping whose frame went out gives up only when its own context ends or the
	// connection closes: a deadline error while the caller's context is alive,
	// with every invoked call's Ping frame already at the peer, is neither
	for _, pc := range calls {
		if !pc.early {
			continue
		}
		frames, invoked := 0, 0
		for _, sp := range seenPings {
			if sp.step < pc.ret {
				frames++
			}
		}
		for _, o := range calls {
			if o.invoke > 0 && o.invoke <= pc.ret {
				invoked++
			}
		}
		if frames >= invoked {
			r.Violate("ping-error-before-context-end", sig, "%s returned %v after %v although its context lasts %v, its Ping frame had reached the peer and the connection was open", pc.name, pc.err, pc.retAt-pc.invokeAt, pc.timeout)
		} else {
			r.S.Count("probe.ping-write-timed-out")
		}
	}
	if policy == 7 && !unsolicited && len(okCalls) > 0 {
		r.Violate("ping-nil-without-own-pong", sig, "no pong was ever sent for a library ping, but %d Ping calls returned nil", len(okCalls))
	}
	// ---- inbound pings: pongs received == pings sent (prefix up to the close)
	var gotPongs [][]byte
	for _, f := range peer.Frames {
		if f.Opcode == wsref.OpPong {
			gotPongs = append(gotPongs, f.Payload)
		}
	}
	if len(gotPongs) > len(sentPings) {
		r.Violate("pong-count", sig, "library sent %d pongs for %d pings", len(gotPongs), len(sentPings))
		return
	}
	for i := range gotPongs {
		if !bytes.Equal(gotPongs[i], sentPings[i]) {
			r.Violate("pong-payload", sig, "pong %d has payload %q, ping %d had %q", i, gotPongs[i], i, sentPings[i])
			return
		}
	}
	// all pings that reached the library while it was reading must be answered:
	// the finisher waits 3 s after the last call; without faults everything
	// sent before that must have been read.
	// (not with the delayed policy: there the peer reads slowly, and a pong
	// write that cannot complete within 5 s legitimately fails the connection)
	if policy != 6 && (len(gotPongs) < len(sentPings) && readErr == nil && !useCloseRead || useCloseRead && len(gotPongs) < len(sentPings) && inMsgs == 0) {
		r.Violate("pong-missing", sig, "library answered %d of %d pings although it kept reading", len(gotPongs), len(sentPings))
	}
	if lateSent && len(gotPongs) < len(sentPings) {
		r.Violate("pong-missing", sig+",after-own-close-frame", "library answered %d of %d pings; the last %d were sent after the peer had received the library's Close frame and before the peer echoed it", len(gotPongs), len(sentPings), lateN)
	}
	if len(sentPings) > 0 {
		r.S.Count("probe.inbound-pings")
	}
}
