package props

import (
	"fmt"

	"nhooyr.io/websocket"
)

// Tier 2: yield points inside the library (build tag verif in /repo). A run
// enables a drawn subset of sites with a drawn park probability; an enabled
// site parks the calling goroutine so that the scheduler can run somebody
// else inside windows that otherwise never get split at GOMAXPROCS=1.

var yieldSites = []string{
	"mu.lock.enter", "mu.lock.acquired", "mu.unlock", "mu.forcelock",
	"close.flagged", "close.rwc", "close.torn",
	"wf.armed", "wf.written", "rf.header", "rf.payload",
	"hc.closing.1", "hc.closing.2", "mr.read.ret", "closeread.start", "closeread.closed", "ping.registered",
	"closeMu.before",
	"wf.header", "wf.payload", "ping.listed", "closeread.registered", "close.handshaken",
	"dial.key", // (no connection yet: the hook is called with a nil *Conn)
}

type yieldState struct {
	enabled map[string]bool
	pct     int
	held    map[*websocket.Conn]bool // model of closeMu: a goroutine is past the gate
	names   map[*websocket.Conn]string
	waiters map[*websocket.Conn][]chan struct{} // goroutines blocked at the closeMu gate, in arrival order
	seen    map[string]int                      // how often each site was reached (enabled or not)
	live    bool
}

// DrawYields draws the tier-2 configuration of a run. It always draws (so
// that tapes do not depend on the build) but only takes effect when the
// library was built with -tags verif.
func (r *Run) DrawYields() {
	t := r.Tape
	y := &yieldState{enabled: map[string]bool{}, held: map[*websocket.Conn]bool{}, names: map[*websocket.Conn]string{}, waiters: map[*websocket.Conn][]chan struct{}{}, seen: map[string]int{}}
	mode := t.Weighted(4, 4, 2) // 0 off, 1 a subset, 2 all sites
	y.pct = []int{15, 40, 80}[t.Draw(3)]
	switch mode {
	case 1:
		for n := 1 + t.Draw(5); n > 0; n-- {
			y.enabled[yieldSites[t.Draw(len(yieldSites))]] = true
		}
	case 2:
		for _, s := range yieldSites {
			y.enabled[s] = true
		}
	}
	r.y = y
	if HooksCompiled && len(y.enabled) > 0 {
		r.D("yield_sites", sortedKeys(y.enabled))
		r.D("yield_pct", y.pct)
	}
}

func (r *Run) connName(c *websocket.Conn) string {
	if n, ok := r.y.names[c]; ok {
		return n
	}
	n := fmt.Sprintf("k%d", len(r.y.names))
	r.y.names[c] = n
	return n
}

// yield is called from the library (SimYield). It runs on the goroutine that
// the scheduler released last, so it may draw from the tape.
func (r *Run) yield(point string, c *websocket.Conn) {
	y := r.y
	if y == nil || !r.S.Looping() || r.S.Draining() {
		return
	}
	if point == "closeMu.before" {
		// Lock model: nobody may block on closeMu (a sync.Mutex wait is not a
		// durable block) while its holder can be parked. So every acquisition
		// passes this gate, whatever sites are enabled.
		// A goroutine that finds the gate busy waits outside the scheduler's books
		// (a private channel: a durable block, no entry, no draw, no log line) and
		// gets the mutex handed over by the goroutine that releases it, in the same
		// scheduler step. Whether such a waiter exists at all is often the runtime's
		// choice and not the tape's: timeoutLoop's select has both 'closed' and
		// 'context done' ready and only one of the two calls close() - on a
		// connection that is closed already, where the call does nothing. Kept out
		// of the books, that coin no longer shifts every later draw of the run.
		r.S.Lock()
		r.connName(c)
		busy := y.held[c]
		var ch chan struct{}
		if !busy {
			y.held[c] = true
		} else {
			ch = make(chan struct{})
			y.waiters[c] = append(y.waiters[c], ch)
		}
		r.S.Unlock()
		if busy {
			<-ch
			r.S.Count("probe.yield.closeMu-contended")
			return
		}
	}
	r.S.Lock()
	y.seen[point]++
	r.S.Unlock()
	if !y.enabled[point] {
		return
	}
	r.S.Lock()
	name := r.connName(c)
	r.S.Unlock()
	r.S.Count("yield." + point)
	r.S.ParkCoin("y."+point+"@"+name+"/"+r.S.WhoAmI(), y.pct)
}

func (r *Run) note(point string, c *websocket.Conn) {
	y := r.y
	if y == nil {
		return
	}
	if point == "closeMu.released" {
		r.S.Lock()
		if w := y.waiters[c]; len(w) > 0 {
			// (stays held: handed over to the first waiter)
			y.waiters[c] = w[1:]
			close(w[0])
		} else {
			y.held[c] = false
		}
		r.S.Unlock()
		r.S.Kick()
	}
}

// YieldSeenLocked reports how often a yield site has been reached in this run
// (for readiness predicates, which run with the simulator lock held).
func (r *Run) YieldSeenLocked(point string) int {
	if r.y == nil {
		return 0
	}
	return r.y.seen[point]
}

// ForceYield enables one site for this run (after DrawYields).
func (r *Run) ForceYield(point string) {
	if r.y != nil {
		r.y.enabled[point] = true
	}
}
