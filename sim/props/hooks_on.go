//go:build verif

package props

import (
	"nhooyr.io/websocket"
)

// HooksCompiled reports whether the library was built with its verif hooks.
const HooksCompiled = true

func installHooks(r *Run) {
	websocket.SimYield = func(point string, c *websocket.Conn) { r.yield(point, c) }
	websocket.SimNote = func(point string, c *websocket.Conn) { r.note(point, c) }
}

func removeHooks() {
	websocket.SimYield = nil
	websocket.SimNote = nil
}
