package props

import (
	"bytes"
	"context"
	"fmt"
	"net/http"
	"net/http/httptest"
	"strconv"
	"strings"

	"nhooyr.io/websocket"

	"verifsim/simrt"
	"verifsim/wsref"
)

// C14 — permessage-deflate is negotiated soundly and both ends agree on its
// parameters (negotiation model from RFC 7692 7.1 + compressed exchange with
// a reference peer that applies exactly what was agreed).

func init() {
	register(&Prop{ID: "C14", Run: runC14, Enum: enumC14, Quick: 10000, Thorough: 1000000, Level: "exploration",
		Exhaustive: "all single-offer parameter sets of up to 2 parameters from the grammar x 3 server modes; all response variants x 3 client modes (both tiers)"})
}

// offer parameters (RFC 7692 7.1 grammar + malformed / unknown forms)
var c14Params = []string{
	"client_no_context_takeover", "server_no_context_takeover",
	"client_max_window_bits", "client_max_window_bits=15", "client_max_window_bits=8", "client_max_window_bits=10",
	"server_max_window_bits=15", "server_max_window_bits=14", "server_max_window_bits=8", "server_max_window_bits=10",
	// malformed / unknown
	"client_max_window_bits=abc", "client_max_window_bits=99", "client_max_window_bits=7", "client_max_window_bits=16",
	"server_max_window_bits", "server_max_window_bits=abc", "server_max_window_bits=16",
	"client_no_context_takeover=1", "server_no_context_takeover=true",
	"foo", "foo=1", "x_unknown",
}

type c14Offer struct {
	name   string
	params []string
}

func (o c14Offer) String() string {
	return strings.Join(append([]string{o.name}, o.params...), "; ")
}

// offerVerdict is the reference negotiation model for one offer against a
// server that cannot limit its window (like this library): acceptable iff
// every parameter is known, well-formed, not duplicated, and honourable.
func offerVerdict(o c14Offer) (ok bool, cnct, snct, cmwb bool) {
	ok, cnct, snct, cmwb, _ = offerVerdictWhy(o)
	return
}

// offerVerdictWhy also names the first reason an offer is unacceptable.
func offerVerdictWhy(o c14Offer) (ok bool, cnct, snct, cmwb bool, why string) {
	if o.name != "permessage-deflate" {
		return false, false, false, false, "other-extension"
	}
	seen := map[string]bool{}
	for _, p := range o.params {
		name, val, hasVal := strings.Cut(p, "=")
		if seen[name] {
			return false, false, false, false, "duplicate:" + name
		}
		seen[name] = true
		switch name {
		case "client_no_context_takeover":
			if hasVal {
				return false, false, false, false, "value-on-flag"
			}
			cnct = true
		case "server_no_context_takeover":
			if hasVal {
				return false, false, false, false, "value-on-flag"
			}
			snct = true
		case "client_max_window_bits":
			cmwb = true
			if hasVal {
				n, err := strconv.Atoi(val)
				if err != nil || n < 8 || n > 15 {
					return false, false, false, false, "bad-client_max_window_bits"
				}
			}
		case "server_max_window_bits":
			n, err := strconv.Atoi(val)
			if !hasVal || err != nil || n < 8 || n > 15 {
				return false, false, false, false, "bad-server_max_window_bits"
			}
			if n < 15 {
				return false, false, false, false, "server_max_window_bits<15" // cannot honour a smaller window
			}
		default:
			return false, false, false, false, "unknown-parameter"
		}
	}
	return true, cnct, snct, cmwb, ""
}

func enumC14(tier string) [][]uint32 {
	var out [][]uint32
	// scenario 0 (library is the server): single offers with 0, 1 or 2 parameters x 3 modes
	for m := 0; m < 3; m++ {
		out = append(out, []uint32{0, uint32(m), 0, 0, 0}) // one offer, no params
		for a := range c14Params {
			out = append(out, []uint32{0, uint32(m), 0, 0, 1, uint32(a)})
			for b := range c14Params {
				if tier == "thorough" || (a+b+m)%3 == 0 {
					out = append(out, []uint32{0, uint32(m), 0, 0, 2, uint32(a), uint32(b)})
				}
			}
		}
	}
	// scenario 1 (library is the client): every response variant x 3 modes
	for m := 0; m < 3; m++ {
		for e := range c13Ext {
			out = append(out, []uint32{1, uint32(m), uint32(e)})
		}
	}
	return out
}

// c14Exchange runs a compressed exchange in both directions between the
// library connection and a reference peer that uses exactly the agreed
// parameters. peerSendTake / peerRecvTake: the peer compresses with context
// takeover / may rely on the library keeping its context.
func c14Exchange(r *Run, sig string, rc *rawConn, deflate, peerSendTake, libSendTakeGuaranteedOff bool) {
	t := r.Tape
	c, peer := rc.C, rc.Peer
	bg := context.Background()
	c.SetReadLimit(-1)
	n := 3 + t.Draw(6)
	base := [][]byte{
		Payload{Kind: 3, Len: 900 + t.Draw(200), Seed: t.U32()}.Bytes(),
		Payload{Kind: 0, Len: 3000 + t.Draw(500), Seed: t.U32()}.Bytes(),
		Payload{Kind: 3, Len: 20000 + t.Draw(20000), Seed: t.U32()}.Bytes(),
	}
	var in, out [][]byte
	for i := 0; i < n; i++ {
		b := base[t.Draw(len(base))]
		if t.Pct(30) {
			b = append(append([]byte(nil), b[:len(b)/2]...), base[t.Draw(len(base))]...)
		}
		in = append(in, b)
		out = append(out, base[t.Draw(len(base))])
	}
	// the peer's messages, compressed with every freedom it has
	var comp *wsref.Deflater
	if deflate {
		comp = &wsref.Deflater{Takeover: peerSendTake, Level: []int{-1, 9, 1}[t.Draw(3)]}
	}
	var stream []byte
	for _, m := range in {
		spec := MsgSpec{Typ: wsref.OpBinary, Data: m, Compress: comp != nil, Frags: SplitFrags(t, len(m))}
		stream = append(stream, peer.Encode(MessageFrames(spec, comp)...)...)
	}
	peer.Inject(stream)
	rc.Lib.In().RChunk = t.Weighted(4, 0, 1, 2, 3)
	r.S.Go("lib", func() {
		defer c.CloseNow()
		for i, want := range in {
			r.S.Park("a.lib.r")
			_, got, err := c.Read(bg)
			if err != nil {
				r.Violate("peer-message-not-decodable", sig, "message %d from the reference peer (compressed under the agreed parameters, peer keeps context=%v) failed: %v", i, peerSendTake, err)
				return
			}
			if k := firstDiff(got, want); k >= 0 {
				r.Violate("peer-message-differs", sig, "message %d from the reference peer differs at byte %d", i, k)
				return
			}
		}
		for i, m := range out {
			r.S.Park("a.lib.w")
			if err := c.Write(bg, websocket.MessageBinary, m); err != nil {
				r.Violate("write-error", sig, "write %d failed: %v", i, err)
				return
			}
		}
		c.Close(websocket.StatusNormalClosure, "")
	})
	r.S.Go("peer", func() {
		seen := 0
		for {
			f := peer.Next(&seen)
			if f == nil {
				return
			}
			if f.Opcode == wsref.OpClose {
				peer.Send(wsref.Frame{Fin: true, Opcode: wsref.OpClose, Payload: f.Payload})
			}
		}
	})
	r.S.Loop()
	if r.S.Aborted != "" {
		if r.S.Aborted == "sim-time" {
			r.Violate("stuck", sig, "exchange did not finish: parked=%v", r.S.ParkedIDs())
		}
		return
	}
	if len(r.Viol) > 0 {
		return
	}
	// decode what the library sent with exactly what the agreement guarantees:
	// a fresh context per message if the library's side agreed to no takeover
	dec := &wsref.Decoder{ExpectMasked: rc.Opts.LibClient, Deflate: deflate, Takeover: !libSendTakeGuaranteedOff, KeepGoingAfterClose: true}
	i := 0
	usedRSV1 := false
	for _, f := range peer.Frames {
		if f.Rsv1 {
			usedRSV1 = true
		}
		for _, ev := range dec.Feed(f.Frame) {
			switch ev.Kind {
			case wsref.EvViolation:
				r.Violate("stream-violation", sig+",what="+ev.What, "library stream: %s", ev.What)
				return
			case wsref.EvMsg:
				if ev.InflateErr != nil {
					r.Violate("library-message-not-decodable", sig, "message %d from the library does not inflate with what the agreement guarantees (fresh context per message=%v): %v", i, libSendTakeGuaranteedOff, ev.InflateErr)
					return
				}
				if i < len(out) && !bytes.Equal(ev.Payload, out[i]) {
					r.Violate("library-message-differs", sig, "message %d from the library differs at byte %d", i, firstDiff(ev.Payload, out[i]))
					return
				}
				i++
			}
		}
	}
	if i != len(out) {
		r.Violate("library-message-count", sig, "%d of %d library messages arrived", i, len(out))
	}
	if usedRSV1 && !deflate {
		r.Violate("compression-without-agreement", sig, "the library set RSV1 although no extension was agreed")
	}
	if usedRSV1 {
		r.S.Count("probe.compressed-exchange")
	}
}

func runC14(r *Run) {
	t := r.Tape
	scen := t.Draw(2)
	mode := modes[t.Draw(3)]
	r.S.MaxSteps = 60000
	r.Nontrivial = true
	if scen == 1 {
		// ---- library is the client, the raw server answers
		ev := c13Ext[t.Draw(len(c13Ext))]
		lax := ev.dc
		sig := fmt.Sprintf("client,mode=%d,ext=%q", mode, ev.val)
		r.Class = sig
		r.D("scenario", "library-client")
		r.D("client_mode", int(mode))
		r.D("response_extensions", ev.val)
		// a legal server echoes server_no_context_takeover when the offer asked for it
		val := ev.val
		offerSNCT := mode == websocket.CompressionNoContextTakeover
		if offerSNCT && strings.HasPrefix(val, "permessage-deflate") && ev.ok && !ev.snct && !strings.Contains(val, ",") {
			val += "; server_no_context_takeover"
		}
		// (a client with compression disabled offers nothing: a server that answers
		// with the extension anyway must be refused)
		o := RawOpts{LibClient: true, Mode: mode, Ext: val, ForceExt: true}
		c, lib, raw, _, err := r.LibVsRaw("c0", o)
		acceptable := val == "" || mode != websocket.CompressionDisabled && ev.ok
		if lax {
			return
		}
		if acceptable && err != nil {
			r.Violate("valid-response-rejected", sig, "response %q to a client in mode %d was rejected: %v", val, mode, err)
			return
		}
		if !acceptable {
			if err == nil {
				r.Violate("invalid-response-accepted", sig, "response %q (a parameter the client did not offer or cannot honour) was accepted in mode %d", val, mode)
			}
			return
		}
		deflate := val != ""
		cnct := mode == websocket.CompressionNoContextTakeover || strings.Contains(val, "client_no_context_takeover")
		snct := mode == websocket.CompressionNoContextTakeover || strings.Contains(val, "server_no_context_takeover")
		rc := &rawConn{C: c, Lib: lib, Raw: raw, Opts: o, PeerIsCli: false, Neg: Negotiated{Deflate: deflate, CNCT: cnct, SNCT: snct}}
		rc.Peer = NewRawPeer(r, raw, "c0.raw", false, t.U32())
		// the server (peer) may keep its context unless server_no_context_takeover was agreed;
		// the client (library) is only guaranteed to reset if client_no_context_takeover was agreed
		c14Exchange(r, sig, rc, deflate, !snct, cnct)
		return
	}
	// ---- library is the server, the raw client offers
	nOffers := 1 + t.Draw(3)
	var offers []c14Offer
	for i := 0; i < nOffers; i++ {
		o := c14Offer{name: "permessage-deflate"}
		if t.Pct(15) {
			o.name = []string{"x-webkit-deflate-frame", "foo", "permessage-deflate-x"}[t.Draw(3)]
		}
		np := t.Draw(4)
		for j := 0; j < np; j++ {
			o.params = append(o.params, c14Params[t.Draw(len(c14Params))])
		}
		offers = append(offers, o)
	}
	var strs []string
	for _, o := range offers {
		strs = append(strs, o.String())
	}
	oneLine := t.Draw(2) == 0
	sig := fmt.Sprintf("server,mode=%d", mode)
	r.Class = fmt.Sprintf("%s/n%d", sig, nOffers)
	r.D("scenario", "library-server")
	r.D("server_mode", int(mode))
	r.D("offers", strs)
	// reference negotiation
	var acc *c14Offer
	var cnct, snct, cmwb bool
	if mode != websocket.CompressionDisabled {
		for i := range offers {
			if ok, a, b, w := offerVerdict(offers[i]); ok {
				acc, cnct, snct, cmwb = &offers[i], a, b, w
				break
			}
		}
	}
	_ = cmwb
	ce, se := simrt.Pipe(r.S, "c0")
	req := httptest.NewRequest("GET", "http://sim.test/", nil)
	req.Header.Set("Connection", "Upgrade")
	req.Header.Set("Upgrade", "websocket")
	req.Header.Set("Sec-WebSocket-Version", "13")
	req.Header.Set("Sec-WebSocket-Key", "dGhlIHNhbXBsZSBub25jZQ==")
	if oneLine {
		req.Header.Set("Sec-WebSocket-Extensions", strings.Join(strs, ", "))
	} else {
		for _, s := range strs {
			req.Header.Add("Sec-WebSocket-Extensions", s)
		}
	}
	hj := &hijackRW{ResponseRecorder: httptest.NewRecorder(), conn: se}
	c, err := websocket.Accept(hj, req, &websocket.AcceptOptions{CompressionMode: mode})
	if err != nil {
		r.Violate("handshake-failed", sig, "Accept failed for offers %q: %v", strs, err)
		return
	}
	r.Track(c, ce, se)
	respExt := hj.ResponseRecorder.Header().Values("Sec-WebSocket-Extensions")
	resp := strings.Join(respExt, ", ")
	r.D("response", resp)
	accDesc := "none"
	if acc != nil {
		accDesc = acc.String()
	}
	r.D("reference_accepts", accDesc)
	if acc == nil {
		if resp != "" {
			whys := map[string]bool{}
			for _, o := range offers {
				if _, _, _, _, w := offerVerdictWhy(o); w != "" && w != "other-extension" {
					whys[w] = true
				}
			}
			r.Violate("unacceptable-offer-accepted", sig+",why="+strings.Join(sortedKeys(whys), "+"), "no offer in %q is acceptable (mode %d) but the server answered %q", strs, mode, resp)
		}
	} else if resp == "" {
		r.Violate("acceptable-offer-declined", sig, "offer %q is acceptable in mode %d but the server declined (offers %q)", acc.String(), mode, strs)
	}
	// legality of the response against the accepted offer
	rCNCT, rSNCT := false, false
	if resp != "" {
		parts := strings.Split(resp, ";")
		if strings.TrimSpace(parts[0]) != "permessage-deflate" || strings.Contains(resp, ",") {
			r.Violate("illegal-response", sig, "response %q is not a single permessage-deflate extension", resp)
			return
		}
		seen := map[string]bool{}
		for _, p := range parts[1:] {
			p = strings.TrimSpace(p)
			if seen[p] {
				r.Violate("illegal-response", sig, "response %q repeats %q", resp, p)
			}
			seen[p] = true
			switch {
			case p == "client_no_context_takeover":
				rCNCT = true
			case p == "server_no_context_takeover":
				rSNCT = true
			case strings.HasPrefix(p, "client_max_window_bits"):
				if acc == nil || !cmwb {
					r.Violate("illegal-response", sig, "response %q carries client_max_window_bits although the accepted offer did not", resp)
				}
			default:
				r.Violate("illegal-response", sig, "response %q carries %q, which a client may not receive", resp, p)
			}
		}
		if acc != nil && snct && !rSNCT {
			r.Violate("snct-not-echoed", sig, "the accepted offer %q asks for server_no_context_takeover, the response %q does not echo it", acc.String(), resp)
		}
	}
	_ = cnct
	if len(r.Viol) > 0 {
		return
	}
	deflate := resp != ""
	o := RawOpts{LibClient: false, Mode: mode, Ext: resp}
	rc := &rawConn{C: c, Lib: se, Raw: ce, Opts: o, PeerIsCli: true, Neg: Negotiated{Deflate: deflate, CNCT: rCNCT, SNCT: rSNCT}}
	rc.Peer = NewRawPeer(r, ce, "c0.raw", true, t.U32())
	// the client (peer) may keep its context unless the response says client_no_context_takeover;
	// the server (library) is only guaranteed to reset if the response says server_no_context_takeover
	c14Exchange(r, sig, rc, deflate, !rCNCT, rSNCT)
}

var _ = http.StatusOK
