package props

import (
	"fmt"

	"verifsim/simrt"
	"verifsim/wsref"
)

// SFrame is a scripted frame plus whether its Masked flag is explicit.
type SFrame struct {
	F        wsref.Frame
	KeepMask bool
	Note     string
}

// Script is a sequence of frames a raw peer sends.
type Script struct {
	Frames []SFrame
	// MsgOpen[i] tells whether a data message is open before frame i.
	Notes []string
}

// MsgSpec describes a scripted data message.
type MsgSpec struct {
	Typ      byte
	Data     []byte
	Compress bool
	BFinal   bool
	FlushAt  []int
	Frags    []int // fragment lengths of the wire payload (sum = len(wire))
}

// SplitFrags draws a fragmentation plan for n wire bytes.
func SplitFrags(t *simrt.Tape, n int) []int {
	if t.Pct(3) {
		// a storm of empty fragments: a first part, 100..180 empty continuation
		// frames, the rest (legal, and more than any retry limit of a buffered reader)
		x := t.Draw(n + 1)
		out := []int{x}
		for i := 100 + t.Draw(81); i > 0; i-- {
			out = append(out, 0)
		}
		return append(out, n-x)
	}
	k := t.Weighted(5, 3, 2, 1, 1) // 0 => single frame
	if k == 0 {
		return []int{n}
	}
	nf := 1 + k + t.Draw(2)
	var out []int
	rem := n
	for i := 0; i < nf-1; i++ {
		var x int
		switch t.Weighted(3, 2, 1) {
		case 0:
			x = t.Draw(rem + 1)
		case 1:
			x = 0
		default:
			x = 1
		}
		if x > rem {
			x = rem
		}
		out = append(out, x)
		rem -= x
	}
	return append(out, rem)
}

// MessageFrames builds the frames of one message. comp is the sender's
// compression context (nil = extension not negotiated).
func MessageFrames(m MsgSpec, comp *wsref.Deflater) []wsref.Frame {
	wire := m.Data
	if m.Compress && comp != nil {
		wire = comp.Compress(m.Data, m.FlushAt, m.BFinal)
	}
	frags := m.Frags
	if len(frags) == 0 {
		frags = []int{len(wire)}
	}
	// re-fit the plan to the wire length (compression changes it)
	tot := 0
	for _, x := range frags {
		tot += x
	}
	if tot != len(wire) {
		fit := make([]int, len(frags))
		rem := len(wire)
		for i := range frags {
			x := 0
			if tot > 0 {
				x = frags[i] * len(wire) / tot
			}
			if i == len(frags)-1 || x > rem {
				x = rem
			}
			fit[i] = x
			rem -= x
		}
		fit[len(fit)-1] += rem
		frags = fit
	}
	var out []wsref.Frame
	off := 0
	for i, x := range frags {
		f := wsref.Frame{Opcode: wsref.OpCont, Payload: wire[off : off+x]}
		if i == 0 {
			f.Opcode = m.Typ
			f.Rsv1 = m.Compress && comp != nil
		}
		f.Fin = i == len(frags)-1
		out = append(out, f)
		off += x
	}
	return out
}

func pingPayload(t *simrt.Tape, tag string) []byte {
	var n int
	switch t.Weighted(3, 2, 1, 1) {
	case 0:
		n = t.Draw(20)
	case 1:
		n = 0
	case 2:
		n = 125
	default:
		n = t.Draw(126)
	}
	b := make([]byte, n)
	for i := range b {
		b[i] = tag[i%len(tag)]
	}
	if n > 0 {
		b[0] = byte('A' + t.Draw(26))
	}
	return b
}

// Violation kinds that can be injected into a script.
var violationKinds = []string{"rsv2", "rsv3", "rsv1-bad", "reserved-opcode", "wrong-mask", "control-126", "control-nofin",
	"cont-no-msg", "new-msg-inside", "len-topbit", "close-1byte", "close-badcode", "control-127"}

var badCloseCodes = []int{0, 1, 999, 1004, 1005, 1006, 1015, 1016, 1100, 2000, 2999, 5000, 65535}

// ViolatingFrame builds a frame that violates RFC 6455 in the given way.
// open tells whether a data message is open at the insertion point; deflate
// whether the extension is negotiated; peerIsClient the raw side's role.
func ViolatingFrame(t *simrt.Tape, kind string, open, deflate, peerIsClient bool) SFrame {
	data := wsref.Frame{Fin: true, Opcode: wsref.OpText, Payload: []byte("violating-frame-data")}
	if open {
		data.Opcode = wsref.OpCont
	}
	ping := wsref.Frame{Fin: true, Opcode: wsref.OpPing, Payload: []byte("vping")}
	pick := func() wsref.Frame {
		if t.Draw(2) == 0 {
			return data
		}
		return ping
	}
	switch kind {
	case "rsv2":
		f := pick()
		f.Rsv2 = true
		return SFrame{F: f, Note: kind}
	case "rsv3":
		f := pick()
		f.Rsv3 = true
		return SFrame{F: f, Note: kind}
	case "rsv1-bad":
		var f wsref.Frame
		switch {
		case !deflate && !open:
			f = data
		case t.Draw(2) == 0 || !open:
			f = ping
			if t.Draw(2) == 1 {
				f.Opcode = wsref.OpPong
			}
		default:
			f = data // continuation with rsv1
		}
		f.Rsv1 = true
		return SFrame{F: f, Note: kind}
	case "reserved-opcode":
		f := data
		ops := []byte{3, 4, 5, 6, 7, 0xB, 0xC, 0xD, 0xE, 0xF}
		f.Opcode = ops[t.Draw(len(ops))]
		f.Fin = true
		// payloads a control-frame handler could take for a Close or Ping payload
		switch t.Draw(4) {
		case 1:
			f.Payload = nil
		case 2:
			f.Payload = wsref.ClosePayload([]int{1000, 1001, 3000}[t.Draw(3)], "bye")
		case 3:
			f.Payload = []byte("1")
		}
		return SFrame{F: f, Note: fmt.Sprintf("%s-%x", kind, f.Opcode)}
	case "wrong-mask":
		f := pick()
		f.Masked = !peerIsClient
		if f.Masked {
			f.Key = [4]byte{1, 2, 3, 4}
		}
		return SFrame{F: f, KeepMask: true, Note: kind}
	case "control-126":
		f := ping
		f.Payload = make([]byte, 126+t.Draw(3)*100)
		if t.Draw(3) == 0 {
			f.Opcode = wsref.OpClose
			copy(f.Payload, wsref.ClosePayload(1000, ""))
		}
		return SFrame{F: f, Note: kind}
	case "control-127":
		f := ping
		f.Payload = make([]byte, 10)
		f.ForceEnc = 1 + t.Draw(2) // short payload, long-form length: allowed? length <=125 so legal apart from non-minimal encoding
		f.DeclareLen = uint64(126 + t.Draw(70000))
		return SFrame{F: f, Note: kind}
	case "control-nofin":
		f := ping
		f.Fin = false
		if t.Draw(3) == 0 {
			f.Opcode = wsref.OpPong
		}
		return SFrame{F: f, Note: kind}
	case "cont-no-msg":
		f := data
		f.Opcode = wsref.OpCont
		return SFrame{F: f, Note: kind}
	case "new-msg-inside":
		f := data
		f.Opcode = byte(1 + t.Draw(2))
		return SFrame{F: f, Note: kind}
	case "len-topbit":
		f := pick()
		f.ForceEnc = 2
		f.DeclareLen = 1<<63 | uint64(t.Draw(1000))
		return SFrame{F: f, Note: kind}
	case "close-1byte":
		return SFrame{F: wsref.Frame{Fin: true, Opcode: wsref.OpClose, Payload: []byte{3}}, Note: kind}
	case "close-badcode":
		c := badCloseCodes[t.Draw(len(badCloseCodes))]
		return SFrame{F: wsref.Frame{Fin: true, Opcode: wsref.OpClose, Payload: wsref.ClosePayload(c, "bad")}, Note: fmt.Sprintf("%s-%d", kind, c)}
	}
	return SFrame{F: data}
}

// goodCloseCodes are receivable codes used by scripts.
var goodCloseCodes = []int{1000, 1001, 1002, 1003, 1007, 1008, 1009, 1010, 1011, 1012, 1013, 1014, 3000, 3999, 4000, 4999}

// EncodeScript serialises the frames for the peer's role and returns the
// byte offsets at which each frame ends.
func EncodeScript(p *RawPeer, fs []SFrame) (stream []byte, ends []int) {
	for _, sf := range fs {
		stream = wsref.AppendFrame(stream, p.Prepare(sf.F, sf.KeepMask))
		ends = append(ends, len(stream))
	}
	return
}

// Expect is the reference prediction for an inbound byte stream.
type Expect struct {
	Msgs      []wsref.Event // complete messages, in order
	Pings     [][]byte      // ping payloads before the terminal event, in order
	Terminal  string        // "close", "violation", "eof"
	Code      int
	Reason    string
	What      string // violation kind
	TermFrame int    // index of the terminal frame (or number of complete frames for eof)
	// state at EOF
	OpenMsg         bool
	OpenComp        bool
	OpenRaw         []byte
	OpenType        byte
	FirstData       int  // index of the first data frame (-1 if none)
	PingsBefore     int  // pings before FirstData
	DontCareContent bool // a compressed message did not inflate cleanly
	PongsAtLeast    bool // lenient mode: more pongs than Pings are acceptable
	TermInMsg       bool // the terminal frame arrived while a fragmented message was open
}

// Predict runs the reference decoder over an inbound stream.
func Predict(stream []byte, fromClient bool, deflate, takeover bool) Expect {
	return predict(stream, fromClient, deflate, takeover, false)
}

// PredictLenient is Predict for mutated streams: a compressed message that is
// still open when the stream ends may already be malformed DEFLATE, so pings
// after its start are not required to be answered (PongsAtLeast).
func PredictLenient(stream []byte, fromClient bool, deflate, takeover bool) Expect {
	return predict(stream, fromClient, deflate, takeover, true)
}

func predict(stream []byte, fromClient bool, deflate, takeover bool, lenient bool) (ex Expect) {
	ex = Expect{FirstData: -1}
	pingsAtMsgStart := 0
	var decp *wsref.Decoder
	defer func() {
		if !lenient || decp == nil || ex.Terminal == "malformed-deflate" {
			return
		}
		if open, _, comp, _ := decp.OpenMessage(); open && comp {
			// a mutated compressed message that never completes may already be
			// malformed DEFLATE: the library may fail anywhere inside it, before
			// it reaches a later Close frame or violation
			ex.Pings = ex.Pings[:pingsAtMsgStart]
			ex.PongsAtLeast = true
			ex.Terminal = "malformed-deflate"
		}
	}()
	frames, _, partial, perr := wsref.ParseAll(stream)
	dec := &wsref.Decoder{ExpectMasked: fromClient, Deflate: deflate, Takeover: takeover}
	decp = dec
	for i, f := range frames {
		if !wsref.IsControl(f.Opcode) && ex.FirstData < 0 {
			if v := dec.HeaderViolation(f); v == "" {
				ex.FirstData = i
				ex.PingsBefore = len(ex.Pings)
			}
		}
		wasOpen, _, _, _ := dec.OpenMessage()
		if !wasOpen {
			pingsAtMsgStart = len(ex.Pings)
		}
		for _, ev := range dec.Feed(f) {
			switch ev.Kind {
			case wsref.EvMsg:
				if ev.InflateErr != nil {
					// malformed DEFLATE: what the receiver does with this
					// message (and after it) is unspecified.
					ex.DontCareContent = true
					ex.Terminal, ex.TermFrame = "malformed-deflate", i
					ex.Pings = ex.Pings[:pingsAtMsgStart]
					return ex
				}
				ex.Msgs = append(ex.Msgs, ev)
			case wsref.EvPing:
				ex.Pings = append(ex.Pings, ev.Payload)
			case wsref.EvClose:
				ex.Terminal, ex.Code, ex.Reason, ex.TermFrame = "close", ev.Code, ev.Reason, i
				ex.TermInMsg = wasOpen
				return ex
			case wsref.EvViolation:
				ex.Terminal, ex.What, ex.TermFrame = "violation", ev.What, i
				return ex
			}
		}
	}
	ex.TermFrame = len(frames)
	if perr != nil {
		ex.Terminal, ex.What = "violation", "len-topbit"
		return ex
	}
	if partial != nil {
		if v := dec.HeaderViolation(*partial); v != "" {
			ex.Terminal, ex.What = "violation", v
			return ex
		}
	}
	ex.Terminal = "eof"
	ex.OpenMsg, ex.OpenType, ex.OpenComp, ex.OpenRaw = dec.OpenMessage()
	if partial != nil && !wsref.IsControl(partial.Opcode) {
		if ex.FirstData < 0 {
			ex.FirstData = len(frames)
			ex.PingsBefore = len(ex.Pings)
		}
		ex.OpenRaw = append(append([]byte(nil), ex.OpenRaw...), partial.Payload...)
		if !ex.OpenMsg {
			ex.OpenMsg = true
			ex.OpenType = partial.Opcode
			ex.OpenComp = partial.Rsv1
		}
	}
	return ex
}
