package props

import (
	"bytes"
	"context"
	"fmt"
	"io"

	"nhooyr.io/websocket"
	"nhooyr.io/websocket/wsjson"

	"verifsim/simrt"
	"verifsim/wsref"
)

// C04 — no silent truncation: the transport ends or fails at every byte
// offset of a scripted stream (fault_enumeration).

func init() {
	register(&Prop{ID: "C04", Run: runC04, Enum: enumC04, Quick: 3000, Thorough: 60000, Level: "fault_enumeration",
		Exhaustive: "every cut offset 0..len(stream) x {EOF, error} x 9 reader APIs/buffer sizes x {one read, 1-byte reads} for each enumerated script"})
}

var c04Bufs = []int{1, 2, 3, 5, 64, 4096}

const c04APIs = 9 // 0..5 Reader with c04Bufs, 6 Read, 7 NetConn.Read, 8 wsjson.Read

type c04Script struct {
	Opts   RawOpts
	Typ    byte
	Frames []SFrame
	Msgs   [][]byte // true payloads
	JSON   bool
	Seed   uint32
}

// genC04Script is a pure function of (seed word, size class): the whole
// script — role, negotiation, messages, fragmentation — comes from a sub-tape.
func genC04Script(seed uint32, large bool) c04Script {
	t := simrt.NewTape(uint64(seed)*0x9e3779b97f4a7c15+12345, nil)
	sc := c04Script{Seed: seed}
	sc.Opts = RawOpts{LibClient: t.Draw(2) == 1, Mode: modes[t.Draw(3)], Ext: extChoices[t.Draw(len(extChoices))], Thresh: 0}
	sc.Typ = byte(1 + t.Draw(2))
	sc.JSON = sc.Typ == wsref.OpText
	neg := negotiate(sc.Opts)
	peerIsCli := !sc.Opts.LibClient
	var comp *wsref.Deflater
	if neg.Deflate {
		take := !neg.SNCT
		if peerIsCli {
			take = !neg.CNCT
		}
		comp = &wsref.Deflater{Takeover: take, Level: []int{-1, 1, 9}[t.Draw(3)]}
	}
	n := 1 + t.Draw(4)
	for i := 0; i < n; i++ {
		var ln int
		if large {
			ln = []int{4090, 4096, 8200, 33000, 70000, 200000}[t.Draw(6)] + t.Draw(10)
		} else {
			ln = []int{0, 1, 5, 20, 60, 126, 130}[t.Draw(7)] + t.Draw(3)
		}
		var data []byte
		jsonWS := ""
		if sc.JSON {
			// a JSON string document of total length ln (at least 2)
			if ln < 2 {
				ln = 2
			}
			// (optionally followed by white space, as json.Encoder and many senders do:
			// the value then ends before the message does)
			ws := []string{"", "", "\n", " \n\t \n", "      "}[t.Draw(5)]
			if ln < 2+len(ws) {
				ws = ""
			}
			ln -= len(ws)
			data = make([]byte, ln, ln+len(ws))
			data[0], data[ln-1] = '"', '"'
			for j := 1; j < ln-1; j++ {
				data[j] = 'a' + byte((j*7+i+int(seed))%26)
			}
			jsonWS = ws
			if large && ln > 100 {
				// make it less trivially compressible
				rng := simrt.NewLocalRNG(uint64(seed) + uint64(i))
				for j := 1; j < ln-1; j += 3 {
					data[j] = 'a' + byte(rng.Intn(26))
				}
			}
			data = append(data, jsonWS...)
		} else {
			data = Payload{Kind: []int{0, 2, 3}[t.Draw(3)], Len: ln, Seed: seed + uint32(i)}.Bytes()
		}
		m := MsgSpec{Typ: sc.Typ, Data: data}
		if comp != nil && t.Pct(60) {
			m.Compress = true
			if t.Pct(20) && len(data) > 2 {
				m.FlushAt = []int{1 + t.Draw(len(data)-1)}
			}
			// some senders end a compressed message with a BFINAL=1 block + 0x00
			m.BFinal = t.Pct(30)
		}
		m.Frags = SplitFrags(t, len(data))
		mf := MessageFrames(m, comp)
		for j, f := range mf {
			sc.Frames = append(sc.Frames, SFrame{F: f})
			if j < len(mf)-1 && t.Pct(25) {
				// (an empty control frame is a final frame with nothing left to read:
				// exactly what the end of a message looks like to the reader's state)
				sc.Frames = append(sc.Frames, SFrame{F: wsref.Frame{Fin: true, Opcode: []byte{wsref.OpPing, wsref.OpPong}[t.Draw(2)], Payload: [][]byte{nil, []byte("p")}[t.Draw(2)]}})
			}
		}
		sc.Msgs = append(sc.Msgs, data)
		if t.Pct(20) {
			sc.Frames = append(sc.Frames, SFrame{F: wsref.Frame{Fin: true, Opcode: wsref.OpPing, Payload: []byte("between")}})
		}
	}
	return sc
}

// c04StreamLen computes the stream length of a script without a connection.
func c04StreamLen(sc c04Script) int { return len(c04Stream(sc)) }

func c04Stream(sc c04Script) []byte {
	p := &RawPeer{IsClient: !sc.Opts.LibClient, rng: simrt.NewLocalRNG(uint64(sc.Seed) + 99)}
	s, _ := EncodeScript(p, sc.Frames)
	return s
}

var c04QuickSeeds = []uint32{1, 2, 3, 4, 5, 6, 7, 8}

func enumC04(tier string) [][]uint32 {
	var seeds []uint32
	if tier == "thorough" {
		for i := uint32(1); i <= 160; i++ {
			seeds = append(seeds, i)
		}
	} else {
		seeds = c04QuickSeeds
	}
	var out [][]uint32
	for _, sd := range seeds {
		sc := genC04Script(sd, false)
		n := c04StreamLen(sc)
		if n > 420 {
			continue
		}
		for k := 0; k <= n; k++ {
			for term := 0; term < 2; term++ {
				for api := 0; api < c04APIs; api++ {
					if api == 8 && !sc.JSON {
						continue
					}
					for ch := 0; ch < 2; ch++ {
						// layout: mode(0=enumerated small), seed, k, term, api, chunk
						out = append(out, []uint32{0, sd, uint32(k), uint32(term), uint32(api), uint32(ch)})
					}
				}
			}
		}
	}
	return out
}

func runC04(r *Run) {
	t := r.Tape
	large := t.Draw(2) == 1
	seed := t.U32()
	sc := genC04Script(seed, large)
	stream := c04Stream(sc)
	var k int
	if large {
		// biased sampling of the cut offset
		frames, _, _, _ := wsref.ParseAll(stream)
		switch t.Weighted(2, 3, 3, 2) {
		case 0:
			k = t.Draw(len(stream) + 1)
		case 1: // around a frame boundary / inside a header
			f := frames[t.Draw(len(frames))]
			k = f.Start + t.Draw(f.HdrEnd-f.Start+3)
		case 2: // last bytes of a frame
			f := frames[t.Draw(len(frames))]
			k = f.End - []int{0, 0, 0, 1, 2, 3, 5, 8}[t.Draw(8)]
		default: // multiples of the bufio size
			k = 4096 * (1 + t.Draw(len(stream)/4096+1))
			k += t.Draw(3) - 1
		}
		if k < 0 {
			k = 0
		}
		if k > len(stream) {
			k = len(stream)
		}
	} else {
		k = t.Draw(len(stream) + 1)
	}
	term := t.Draw(2)
	api := t.Draw(c04APIs)
	if api == 8 && !sc.JSON {
		api = 6
	}
	chunk := t.Draw(2)
	rc, err := r.newRawConn("c0", sc.Opts)
	if err != nil {
		r.Violate("handshake-failed", "raw", "handshake failed: %v", err)
		return
	}
	// half of the runs whose messages fit keep the default read limit (some code
	// paths depend on whether a limit is in force)
	maxMsg := 0
	for _, m := range sc.Msgs {
		if len(m) > maxMsg {
			maxMsg = len(m)
		}
	}
	if maxMsg > 32000 || (k+term+api)%2 == 0 {
		rc.C.SetReadLimit(-1)
	} else {
		r.S.Count("probe.default-read-limit")
	}

	in := rc.Lib.In()
	in.CutAt = int64(k)
	in.CutErr = io.EOF
	if term == 1 {
		in.CutErr = simrt.ErrReset
	}
	in.RChunk = simrt.ChunkAll
	if chunk == 1 {
		in.RChunk = simrt.ChunkOne
		if large {
			in.RChunk = simrt.ChunkMixed
		}
	}
	in.OpBudget = 3000
	r.S.MaxSteps = 30000
	// the Read that delivers the last bytes before the cut may report the end of
	// the stream (or the reset) in the same call, as io.Reader allows
	in.ErrWithData = t.Pct(35)

	neg := rc.Neg
	ex := Predict(stream[:k], rc.PeerIsCli, neg.Deflate, rc.PeerTake)
	full := Predict(stream, rc.PeerIsCli, neg.Deflate, rc.PeerTake)
	j := len(ex.Msgs)
	var truth []byte // the true payload of the message in progress
	atBoundary := !ex.OpenMsg
	if !atBoundary && j < len(full.Msgs) {
		truth = full.Msgs[j].Payload
	}
	where := "boundary"
	if !atBoundary {
		where = "in-message"
		frames, rest, partial, _ := wsref.ParseAll(stream[:k])
		_ = frames
		if partial != nil {
			where = "in-payload"
		} else if rest < k {
			where = "in-header"
		} else {
			where = "between-fragments"
		}
	} else if _, rest, _, _ := wsref.ParseAll(stream[:k]); rest < k {
		where = "boundary-in-header"
	}
	apiName := "Reader"
	switch api {
	case 6:
		apiName = "Read"
	case 7:
		apiName = "NetConn"
	case 8:
		apiName = "wsjson"
	}
	comprOpen := ex.OpenComp
	sig := fmt.Sprintf("api=%s,term=%d,where=%s,compressed=%v", apiName, term, where, comprOpen)
	r.Class = fmt.Sprintf("%s/%d/%s/%v/cli%v/L%v", apiName, term, where, comprOpen, sc.Opts.LibClient, large)
	r.D("script_seed", seed)
	r.D("large", large)
	r.D("role_lib_client", sc.Opts.LibClient)
	r.D("ext", sc.Opts.Ext)
	r.D("frames", describeFrames(sc.Frames))
	r.D("stream_len", len(stream))
	r.D("cut", k)
	r.D("where", where)
	r.D("term", []string{"eof", "reset"}[term])
	r.D("api", fmt.Sprintf("%s/%d", apiName, api))
	r.Nontrivial = true
	if in.CutAt > 0 && !atBoundary {
		r.S.Count("probe.cut-" + where)
	}

	rc.Peer.Inject(stream)
	var msgs [][]byte
	var partial []byte
	var rerr error
	cleanAfterError := ""
	cleanEOF := false // bare io.EOF reported by a message reader for message j
	r.S.Go("reader", func() {
		ctx := context.Background()
		defer rc.C.CloseNow()
		switch {
		case api <= 5:
			bs := c04Bufs[api]
			if large && api == 5 && k%2 == 0 {
				bs = 32768 // (reads of a bufio buffer or more go to the transport directly)
			}
			buf := make([]byte, bs)
			for {
				_, rd, e := rc.C.Reader(ctx)
				if e != nil {
					rerr = e
					return
				}
				var data []byte
				for {
					n, e := rd.Read(buf)
					data = append(data, buf[:n]...)
					if e == io.EOF {
						msgs = append(msgs, data)
						break
					}
					if e != nil {
						partial, rerr = data, e
						// a caller that reads again on the failed reader (a bufio.Reader on
						// top of it does) must not be told that the message ended cleanly
						for again := 0; again < 2; again++ {
							n2, e2 := rd.Read(buf)
							if e2 == io.EOF {
								cleanAfterError = fmt.Sprintf("Read #%d after the error %v returned (%d, %v)", again+1, e, n2, e2)
								break
							}
							if e2 == nil {
								partial = append(partial, buf[:n2]...)
							}
						}
						return
					}
				}
			}
		case api == 6:
			for {
				_, data, e := rc.C.Read(ctx)
				if e != nil {
					partial, rerr = data, e
					return
				}
				msgs = append(msgs, data)
			}
		case api == 7:
			nc := websocket.NetConn(ctx, rc.C, websocket.MessageType(sc.Typ))
			buf := make([]byte, []int{1, 7, 4096}[k%3])
			var all []byte
			for {
				n, e := nc.Read(buf)
				all = append(all, buf[:n]...)
				if e != nil {
					partial, rerr = all, e
					if e == io.EOF {
						cleanEOF = true
					}
					return
				}
			}
		default:
			for {
				var v string
				e := wsjson.Read(ctx, rc.C, &v)
				if e != nil {
					rerr = e
					return
				}
				doc := []byte(`"` + v + `"`)
				if len(msgs) < len(sc.Msgs) {
					// (white space after the value is not part of what wsjson returns)
					exp := sc.Msgs[len(msgs)]
					doc = append(doc, exp[bytes.LastIndexByte(exp, '"')+1:]...)
				}
				msgs = append(msgs, doc)
			}
		}
	})
	r.S.Go("peer", func() { rc.Peer.Drain() })
	r.S.Loop()
	if r.S.Aborted != "" {
		if r.S.Aborted == "sim-time" {
			r.Violate("stuck", sig, "reader did not return after the transport ended at byte %d: parked=%v", k, r.S.ParkedIDs())
		}
		return
	}
	if api == 7 {
		// byte-stream view
		var want []byte
		for _, m := range ex.Msgs {
			want = append(want, m.Payload...)
		}
		if cleanEOF {
			r.Violate("netconn-eof-on-cut", sig, "NetConn.Read returned io.EOF although the transport was cut at byte %d (no Close frame was received)", k)
		}
		if !bytes.HasPrefix(partial, want) {
			r.Violate("completed-message-lost", sig, "NetConn delivered %d bytes, which do not start with the %d bytes of the %d complete messages", len(partial), len(want), j)
			return
		}
		rest := partial[len(want):]
		if !bytes.HasPrefix(truth, rest) {
			r.Violate("partial-not-prefix", sig, "NetConn handed over %d bytes of the cut message that are not a prefix of its payload (len %d)", len(rest), len(truth))
		}
		return
	}
	if rerr == nil {
		r.Violate("no-error", sig, "reader loop ended without error")
		return
	}
	if cleanAfterError != "" {
		r.Violate("silent-truncation", sig+",read-again", "the read of the cut message failed, but reading on told the caller that the message had ended: %s", cleanAfterError)
		return
	}
	if len(msgs) > j {
		got := msgs[j]
		r.Violate("silent-truncation", sig, "message %d was reported complete (%d bytes) although the transport ended at stream byte %d of %d, inside that message (true length %d)", j, len(got), k, len(stream), len(truth))
		return
	}
	if len(msgs) < j {
		r.Violate("completed-message-lost", sig, "%d messages were complete before the cut at byte %d, only %d were delivered; error: %v", j, k, len(msgs), rerr)
		return
	}
	for i := 0; i < j; i++ {
		if d := firstDiff(msgs[i], ex.Msgs[i].Payload); d >= 0 {
			r.Violate("completed-message-corrupt", sig, "message %d differs at byte %d", i, d)
			return
		}
	}
	if rerr == io.EOF {
		r.Violate("bare-eof", sig, "the read of the cut message returned the bare io.EOF sentinel")
	}
	if len(partial) > 0 {
		if !bytes.HasPrefix(truth, partial) {
			d := firstDiff(partial, truth)
			r.Violate("partial-not-prefix", sig, "%d bytes handed to the caller before the error are not a prefix of the message (true length %d, first difference at %d)", len(partial), len(truth), d)
		} else {
			r.S.Count("probe.partial-prefix-checked")
		}
	}
}
