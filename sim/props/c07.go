package props

import (
	"bytes"
	"context"
	"errors"
	"fmt"
	"io"
	"sync/atomic"
	"time"

	"nhooyr.io/websocket"

	"verifsim/wsref"
)

// C07 — connections are isolated: pooled buffers, decompressors and
// compression state never leak data between connections.

func init() {
	register(&Prop{ID: "C07", Run: runC07, Quick: 4000, Thorough: 120000, Level: "exploration", Race: true})
}

// tagged builds a provenance-tagged payload: 8-byte words
// [conn][dir][seq hi][seq lo][word index x4].
func tagged(conn, dir, seq, n int) []byte {
	b := make([]byte, n+8)
	for w := 0; w*8 < n; w++ {
		b[w*8+0] = byte(0x80 | conn)
		b[w*8+1] = byte(0x40 | dir)
		b[w*8+2] = byte(seq >> 8)
		b[w*8+3] = byte(seq)
		b[w*8+4] = byte(w >> 24)
		b[w*8+5] = byte(w >> 16)
		b[w*8+6] = byte(w >> 8)
		b[w*8+7] = byte(w)
	}
	return b[:n]
}

// whose tries to identify the provenance of bytes that are not ours.
func whose(b []byte) string {
	for i := 0; i+8 <= len(b); i++ {
		if b[i]&0xC0 == 0x80 && b[i+1]&0xC0 == 0x40 && b[i+4] == 0 {
			return fmt.Sprintf("look like connection %d direction %d message %d word %d", b[i]&0x3f, b[i+1]&0x3f, int(b[i+2])<<8|int(b[i+3]), int(b[i+5])<<16|int(b[i+6])<<8|int(b[i+7]))
		}
	}
	return fmt.Sprintf("unidentified (%x…)", b[:min(len(b), 16)])
}

var c07Actions = []string{"full", "full+reread", "abandon+close", "over-limit", "peer-close-mid-compressed", "peer-violation-mid-message", "ctx-expiry-mid-message", "closenow-mid-message", "backref-probe", "peer-close-then-reread-earlier"}

func runC07(r *Run) {
	t := r.Tape
	nSlots := 2 + t.Draw(3)
	r.DrawYields()
	r.S.MaxSteps = 80000
	r.S.MaxSim = 5 * time.Minute
	r.S.Stick = []int{0, 40, 80}[t.Draw(3)]
	bg := context.Background()
	type msgPlan struct {
		n      int
		comp   bool
		frags  []int
		action int
		reread int
		j      int // bytes read before abandoning
		buf    int
		useRead bool // whole-message Conn.Read instead of Reader
		// intrude: Reader is called again while the message is open (its final frame has
		// not even been sent yet); the call fails, other connections make progress, and
		// the application goes on reading the open message
		intrude bool
	}
	type connPlan struct {
		id    int
		o     RawOpts
		msgs  []msgPlan
		write int // messages the library writes at the end (if still open)
		// wAction: 0 plain writes at the end, 1 chunked Writers (parks between
		// chunks, so that writers of several connections overlap), 2 a compressed
		// write that fails half way (peer not reading, context expiry) first
		// 3: plain writes and pings while another goroutine closes the connection
		// (CloseNow) at a drawn moment; the slot's next connection follows at once
		wAction    int
		closeAfter int
	}
	type slotPlan struct{ conns []connPlan }
	type keptSlice struct {
		conn, seq  int
		data, snap []byte
	}
	var kept []*keptSlice
	var slots []slotPlan
	var desc []string
	for s := 0; s < nSlots; s++ {
		var sp slotPlan
		gens := 1 + t.Draw(3)
		for g := 0; g < gens; g++ {
			cp := connPlan{id: s*4 + g}
			cp.o = RawOpts{LibClient: t.Draw(2) == 1, Mode: modes[1+t.Draw(2)], Ext: extChoices[1+t.Draw(len(extChoices)-1)]}
			if t.Pct(15) {
				cp.o.Mode, cp.o.Ext = websocket.CompressionDisabled, ""
			}
			nm := 1 + t.Draw(4)
			for i := 0; i < nm; i++ {
				mp := msgPlan{n: []int{40, 200, 1000, 5000, 20000, 40000}[t.Draw(6)] + t.Draw(8), comp: t.Pct(75)}
				mp.frags = SplitFrags(t, mp.n)
				mp.action = t.Weighted(6, 5, 2, 1, 2, 2, 1, 2, 3, 2)
				mp.reread = 1 + t.Draw(3)
				mp.j = 1 + t.Draw(mp.n)
				mp.buf = []int{512, 7, 64, 4096, 32768}[t.Draw(5)]
				mp.useRead = t.Pct(30)
				mp.intrude = t.Pct(25)
				if mp.action == 3 {
					mp.n = 40000
					mp.frags = SplitFrags(t, mp.n)
				}
				cp.msgs = append(cp.msgs, mp)
				if mp.action >= 2 {
					break // the connection ends with this message
				}
			}
			cp.write = t.Draw(3)
			cp.wAction = t.Weighted(5, 3, 2, 3)
			cp.closeAfter = t.Draw(12)
			if cp.wAction == 1 && cp.write == 0 {
				cp.write = 1
			}
			sp.conns = append(sp.conns, cp)
			d := fmt.Sprintf("conn%d cli=%v ext=%q:", cp.id, cp.o.LibClient, cp.o.Ext)
			for _, m := range cp.msgs {
				d += fmt.Sprintf(" [%d comp=%v f%d %s]", m.n, m.comp, len(m.frags), c07Actions[m.action])
			}
			desc = append(desc, d)
		}
		slots = append(slots, sp)
	}
	for _, sp := range slots {
		for _, cp := range sp.conns {
			if cp.wAction == 3 && r.y != nil {
				// a CloseNow racing with frame writers is only interesting if the
				// writers can be parked inside writeFrame while it happens
				r.y.enabled["wf.armed"] = true
				r.y.enabled["wf.written"] = true
				if r.y.pct < 40 {
					r.y.pct = 40
				}
			}
		}
	}
	r.D("plan", desc)
	r.Class = fmt.Sprintf("slots%d", nSlots)
	r.Nontrivial = true

	for s, sp := range slots {
		s, sp := s, sp
		who := fmt.Sprintf("s%d", s)
		r.S.Go(who, func() {
			for _, cp := range sp.conns {
				c07RunConn(r, who, cp.id, cp.o, func(rc *rawConn) {
					c, peer := rc.C, rc.Peer
					c.SetReadLimit(-1)
					var comp *wsref.Deflater
					if rc.Neg.Deflate {
						comp = &wsref.Deflater{Takeover: rc.PeerTake}
					}
					closed := false
					if cp.wAction == 2 {
						// a compressed message that cannot be finished: the peer stops
						// draining, the pipe is tiny, the context expires mid-write
						hold := true
						peer.Hold = func() bool { return hold }
						rc.Lib.Out().Cap = 300
						rc.Lib.Out().HardCap = true
						ctx, cancel := context.WithTimeout(bg, time.Second)
						data := tagged(cp.id, 1, 0, 20000)
						err := c.Write(ctx, websocket.MessageBinary, data)
						cancel()
						hold = false
						r.S.Kick()
						if err == nil {
							r.Violate("blocked-write-succeeded", "write", "conn %d: a 20000-byte write to a peer that does not read returned nil", cp.id)
						}
						r.S.Count("probe.write-failed-midway")
						return
					}
					hist := 0 // plaintext bytes a back-reference of the peer may legally reach
					var prevRd io.Reader // the reader of the last message that was read to its end
					for seq, mp := range cp.msgs {
						if mp.action == 8 && (comp == nil || hist >= 32768-258) {
							mp.action = 0
						}
						if mp.action == 9 && prevRd == nil {
							mp.action = 0
						}
						if mp.action == 9 {
							// The peer closes at a message boundary; the application finds out in
							// its next Reader call. Later, while other connections are being
							// set up and used (and have taken over whatever this one returned
							// to the pools), something still holding the reader of the last
							// finished message reads from it again.
							sig := "action=" + c07Actions[9]
							peer.Inject(peer.Encode(wsref.Frame{Fin: true, Opcode: wsref.OpClose, Payload: wsref.ClosePayload(1000, fmt.Sprintf("conn%d", cp.id))}))
							r.S.Park("a." + who + ".msg")
							_, _, err := c.Reader(bg)
							if err == nil {
								r.Violate("no-error", sig, "conn %d: Reader returned without error after the peer's Close frame", cp.id)
								return
							}
							var ce websocket.CloseError
							if errors.As(err, &ce) && ce.Reason != fmt.Sprintf("conn%d", cp.id) {
								r.Violate("foreign-close-reason", sig, "conn %d: error carries another connection's close reason %q", cp.id, ce.Reason)
							}
							ghost, n := prevRd, 1+mp.reread
							r.S.Go(fmt.Sprintf("%s.ghost%d", who, cp.id), func() {
								gbuf := make([]byte, 4096)
								for k := 0; k < n; k++ {
									r.S.Park("a." + who + ".ghost")
									if k == 1 {
										r.S.Sleep(300 * time.Millisecond)
									}
									m, e := ghost.Read(gbuf)
									if m > 0 {
										r.Violate("bytes-after-eof", sig, "conn %d (closed by its peer): Read on the reader of its last finished message returned %d bytes (err %v); they %s", cp.id, m, e, whose(gbuf[:m]))
										return
									}
									if e == nil {
										r.Violate("nil-after-eof", sig, "conn %d (closed by its peer): Read on the reader of its last finished message returned 0, nil", cp.id)
										return
									}
								}
								r.S.Count("probe.reread-after-peer-close")
							})
							closed = true
							break
						}
						sig := fmt.Sprintf("action=%s,compressed=%v", c07Actions[mp.action], mp.comp && comp != nil)
						want := tagged(cp.id, 0, seq, mp.n)
						frags := mp.frags
						if mp.action == 8 {
							// A message whose DEFLATE stream starts with a match that reaches
							// further back than anything this connection has received: a clean
							// window must refuse it; a window (or decompressor) polluted by
							// another connection would deliver that connection's bytes.
							dist := hist + 1 + mp.j%(32768-hist)
							probe := wsref.BackrefProbe(nil, dist, []int{258, 3, 100}[mp.reread%3])
							want = nil
							pf := wsref.Frame{Fin: true, Opcode: wsref.OpBinary, Rsv1: true, Payload: probe}
							peer.Inject(peer.Encode(pf))
							r.S.Count("probe.backref-probe")
						}
						if mp.comp && comp != nil && rc.PeerTake {
							hist += mp.n
						}
						if mp.action == 4 || mp.action == 5 {
							frags = []int{mp.n / 2, mp.n - mp.n/2}
						}
						var fs []wsref.Frame
						if mp.action != 8 {
							fs = MessageFrames(MsgSpec{Typ: wsref.OpBinary, Data: want, Compress: mp.comp, Frags: frags}, comp)
						}
						switch mp.action {
						case 4: // Close frame between the fragments
							cl := wsref.Frame{Fin: true, Opcode: wsref.OpClose, Payload: wsref.ClosePayload(1000, fmt.Sprintf("conn%d", cp.id))}
							fs = append(fs[:1], append([]wsref.Frame{cl}, fs[1:]...)...)
						case 5:
							bad := wsref.Frame{Fin: true, Opcode: wsref.OpText, Rsv3: true, Payload: tagged(cp.id, 0, 99, 16)}
							fs = append(fs[:1], append([]wsref.Frame{bad}, fs[1:]...)...)
						case 6, 7:
							// only the first part of the message arrives
							b := peer.Encode(fs...)
							fs = nil
							peer.Inject(b[:len(b)/2+1])
						}
						var heldBack []wsref.Frame
						intrude := mp.intrude && mp.action <= 1 && len(fs) >= 2 && !(mp.useRead && mp.action == 0)
						if intrude {
							heldBack = fs[len(fs)-1:]
							fs = fs[:len(fs)-1]
						}
						if fs != nil {
							peer.Inject(peer.Encode(fs...))
						}
						if mp.action == 3 {
							c.SetReadLimit(1000)
						}
						r.S.Park("a." + who + ".msg")
						ctx := bg
						var cancel context.CancelFunc
						if mp.action == 6 || mp.action == 7 {
							// (7: the abandon offset may lie beyond what arrived)
							ctx, cancel = context.WithTimeout(bg, 2*time.Second)
						}
						if mp.useRead && (mp.action == 0 || mp.action >= 3 && mp.action <= 6) {
							// Conn.Read: the slice it returns (also together with an error)
							// belongs to the caller; it is kept and compared again at the end
							_, data, rerr := c.Read(ctx)
							if cancel != nil {
								cancel()
							}
							if len(data) > len(want) || !bytes.Equal(data, want[:len(data)]) {
								r.Violate("foreign-bytes", sig, "conn %d message %d: Conn.Read returned %d bytes (err %v) that are not a prefix of this connection's message; they %s", cp.id, seq, len(data), rerr, whose(data))
								return
							}
							kept = append(kept, &keptSlice{conn: cp.id, seq: seq, data: data, snap: append([]byte(nil), data...)})
							r.S.Count("probe.conn-read-slice-kept")
							if mp.action == 0 {
								if rerr != nil || len(data) != len(want) {
									r.Violate("message-truncated-or-failed", sig, "conn %d message %d: Conn.Read got %d of %d bytes, err %v", cp.id, seq, len(data), len(want), rerr)
									return
								}
								continue
							}
							if rerr == nil {
								r.Violate("no-error", sig, "conn %d message %d: expected Conn.Read to fail, got %d bytes", cp.id, seq, len(data))
							}
							closed = true
							break
						}
						_, rd, err := c.Reader(ctx)
						if err != nil {
							if mp.action < 2 {
								r.Violate("read-error", sig, "conn %d: Reader for message %d failed: %v", cp.id, seq, err)
							}
							closed = true
							if cancel != nil {
								cancel()
							}
							break
						}
						if intrude {
							// the message is open and its final frame has not been sent: a second
							// Reader call has to be refused and must not disturb the open message
							_, _, ierr := c.Reader(ctx)
							r.S.Park("a." + who + ".intruded") // other connections make progress
							peer.Inject(peer.Encode(heldBack...))
							if ierr == nil {
								r.Violate("second-reader-accepted", sig, "conn %d message %d: Reader returned without error while the previous message was still open (its final frame had not been sent)", cp.id, seq)
								return
							}
							r.S.Count("probe.reader-called-mid-message")
						}
						buf := make([]byte, mp.buf)
						var got []byte
						var rerr error
						stopAt := -1
						if mp.action == 2 || mp.action == 7 {
							stopAt = mp.j
						}
						for {
							if stopAt >= 0 && len(got) >= stopAt {
								break
							}
							n, e := rd.Read(buf)
							if n > 0 {
								if len(got)+n > len(want) || !bytes.Equal(buf[:n], want[len(got):len(got)+n]) {
									r.Violate("foreign-bytes", sig, "conn %d message %d: Read returned %d bytes at offset %d that are not this connection's bytes; they %s", cp.id, seq, n, len(got), whose(buf[:n]))
									return
								}
								got = append(got, buf[:n]...)
							}
							if e != nil {
								rerr = e
								break
							}
							if len(got)%3 == 0 {
								r.S.Park("a." + who + ".rd") // let other connections make progress
							}
						}
						if cancel != nil {
							cancel()
						}
						if rerr != nil && rerr != io.EOF && stopAt < 0 {
							// reading again on the reader that failed (after other
							// connections made progress) must not hand out anything
							for k := 0; k < mp.reread; k++ {
								r.S.Park("a." + who + ".reread-after-error")
								n, _ := rd.Read(buf)
								if n > 0 {
									r.Violate("bytes-after-error", sig, "conn %d message %d: Read after the error %v returned %d bytes; they %s", cp.id, seq, rerr, n, whose(buf[:n]))
									return
								}
							}
							r.S.Count("probe.reread-after-error")
						}
						var ce websocket.CloseError
						if errors.As(rerr, &ce) && ce.Reason != "" && ce.Reason != fmt.Sprintf("conn%d", cp.id) {
							r.Violate("foreign-close-reason", sig, "conn %d: error carries another connection's close reason %q", cp.id, ce.Reason)
						}
						switch mp.action {
						case 0, 1:
							if rerr != io.EOF || len(got) != len(want) {
								r.Violate("message-truncated-or-failed", sig, "conn %d message %d: got %d of %d bytes, err %v", cp.id, seq, len(got), len(want), rerr)
								return
							}
							prevRd = rd
							if mp.action == 1 {
								for k := 0; k < mp.reread; k++ {
									if k > 0 || mp.buf > 64 {
										r.S.Park("a." + who + ".reread") // after other connections made progress
									}
									n, e := rd.Read(buf)
									if n > 0 {
										r.Violate("bytes-after-eof", sig, "conn %d message %d: Read after end-of-message returned %d bytes (err %v); they %s", cp.id, seq, n, e, whose(buf[:n]))
										return
									}
									if e == nil {
										r.Violate("nil-after-eof", sig, "conn %d message %d: Read after end-of-message returned 0, nil", cp.id, seq)
										return
									}
								}
								r.S.Count("probe.reread-after-eof")
							}
						case 8:
							if rerr == nil || rerr == io.EOF {
								r.Violate("backref-beyond-history-accepted", sig, "conn %d message %d: a compressed message referring back beyond this connection's history was read without error (%d bytes, err %v)", cp.id, seq, len(got), rerr)
							}
							closed = true
						case 2:
							c.Close(websocket.StatusNormalClosure, fmt.Sprintf("conn%d", cp.id))
							closed = true
						case 7:
							c.CloseNow()
							closed = true
						default:
							if rerr == nil || rerr == io.EOF && len(got) != len(want) {
								r.Violate("no-error", sig, "conn %d message %d: expected the read to fail, got %d bytes, err %v", cp.id, seq, len(got), rerr)
							}
							closed = true
						}
						if closed {
							break
						}
					}
					if !closed && cp.wAction == 3 {
						done := false
						r.S.Go(fmt.Sprintf("%s.closer%d", who, cp.id), func() {
							for k := 0; k < cp.closeAfter && !done; k++ {
								r.S.Park("a." + who + ".closer")
							}
							c.CloseNow()
							// ... and dials a new connection at once, while the old one's
							// writers may still be on their way out of the library
							id2 := 32 + cp.id
							c07RunConn(r, fmt.Sprintf("%s.redial%d", who, cp.id), id2, RawOpts{LibClient: cp.o.LibClient}, func(rc2 *rawConn) {
								for i := 0; i < 3; i++ {
									if err := rc2.C.Write(bg, websocket.MessageBinary, tagged(id2, 1, i, 3000+i)); err != nil {
										r.Violate("write-error", "write", "conn %d (dialed right after connection %d was closed): write %d failed: %v", id2, cp.id, i, err)
										return
									}
									r.S.Park("a." + who + ".redial")
								}
								rc2.C.Close(websocket.StatusNormalClosure, fmt.Sprintf("conn%d", id2))
							})
						})
						nmsg := 0
						for i := 0; i < 6; i++ {
							r.S.Park("a." + who + ".w")
							var err error
							if i%3 == 2 {
								ctx, cancel := context.WithTimeout(bg, time.Second)
								err = c.Ping(ctx)
								cancel()
							} else {
								// (small: below every compression threshold, so that the write
								// goes straight to the frame writer)
								err = c.Write(bg, websocket.MessageBinary, tagged(cp.id, 1, nmsg, 40+cp.id))
								nmsg++
							}
							if err != nil {
								break
							}
						}
						done = true
						r.S.Count("probe.close-during-writes")
						return
					}
					if !closed {
						for i := 0; i < cp.write; i++ {
							r.S.Park("a." + who + ".w")
							data := tagged(cp.id, 1, i, []int{100, 600, 3000, 9000}[i%4]+cp.id)
							if cp.wAction == 1 {
								data = tagged(cp.id, 1, i, []int{600, 3000, 9000, 700}[i%4]+cp.id)
								w, err := c.Writer(bg, websocket.MessageBinary)
								for off := 0; err == nil && off < len(data); off += 1 + len(data)/3 {
									end := off + 1 + len(data)/3
									if end > len(data) {
										end = len(data)
									}
									_, err = w.Write(data[off:end])
									r.S.Park("a." + who + ".wchunk") // let other connections write in between
								}
								if err == nil {
									err = w.Close()
								}
								if err != nil {
									r.Violate("write-error", "write", "conn %d: chunked write %d failed: %v", cp.id, i, err)
									return
								}
								continue
							}
							if err := c.Write(bg, websocket.MessageBinary, data); err != nil {
								r.Violate("write-error", "write", "conn %d: write %d failed: %v", cp.id, i, err)
								return
							}
						}
						r.S.Park("a." + who + ".close")
						c.Close(websocket.StatusNormalClosure, fmt.Sprintf("conn%d", cp.id))
					}
				})
			}
		})
	}
	r.S.Loop()
	if r.S.Aborted == "sim-time" {
		r.Violate("stuck", "isolation", "programs did not finish: parked=%v", r.S.ParkedIDs())
	}
	for _, ks := range kept {
		if !bytes.Equal(ks.data, ks.snap) {
			d := firstDiff(ks.data, ks.snap)
			r.Violate("returned-slice-changed-later", "isolation", "the slice Conn.Read returned for message %d of connection %d (%d bytes) changed after later reads, at byte %d; it now holds bytes that %s", ks.seq, ks.conn, len(ks.snap), d, whose(ks.data[d:]))
			break
		}
	}
}

// c07RunConn opens a connection, runs body and afterwards verifies what the
// raw peer received (the library's writes must carry this connection's tag).
func c07RunConn(r *Run, who string, id int, o RawOpts, body func(rc *rawConn)) {
	rc, err := r.newRawConn(fmt.Sprintf("c%d", id), o)
	if err != nil {
		r.Violate("handshake-failed", "raw", "%v", err)
		return
	}
	rc.Lib.In().RChunk = r.Tape.Weighted(4, 0, 1, 2, 3)
	rc.Lib.Out().WChunk = r.Tape.Weighted(4, 0, 1, 2, 3)
	peer := rc.Peer
	var done atomic.Bool
	r.S.Go(who+".peer", func() {
		seen := 0
		for {
			f := peer.Next(&seen)
			if f == nil {
				done.Store(true)
				return
			}
			if f.Opcode == wsref.OpClose {
				peer.Send(wsref.Frame{Fin: true, Opcode: wsref.OpClose, Payload: f.Payload})
			}
		}
	})
	body(rc)
	rc.C.CloseNow()
	r.S.ParkE("a."+who+".peerdone", func() bool { return done.Load() }, nil)
	dec := &wsref.Decoder{ExpectMasked: o.LibClient, Deflate: rc.Neg.Deflate, Takeover: rc.LibTake, KeepGoingAfterClose: true}
	seq := 0
	for _, f := range peer.Frames {
		for _, ev := range dec.Feed(f.Frame) {
			switch ev.Kind {
			case wsref.EvViolation:
				r.Violate("stream-violation", "wire", "conn %d: %s", id, ev.What)
				return
			case wsref.EvMsg:
				if ev.InflateErr != nil {
					r.Violate("does-not-inflate", "wire", "conn %d: message %d written by the library does not inflate: %v", id, seq, ev.InflateErr)
					return
				}
				want := tagged(id, 1, seq, len(ev.Payload))
				if !bytes.Equal(ev.Payload, want) {
					k := firstDiff(ev.Payload, want)
					r.Violate("foreign-bytes-written", "wire", "conn %d: message %d on the wire differs from what was written at byte %d; the bytes there %s", id, seq, k, whose(ev.Payload[k:]))
					return
				}
				seq++
			case wsref.EvClose:
				if ev.Reason != "" && len(ev.Reason) >= 4 && ev.Reason[:4] == "conn" && ev.Reason != fmt.Sprintf("conn%d", id) {
					r.Violate("foreign-close-reason", "wire", "conn %d sent a Close frame with reason %q", id, ev.Reason)
				}
			}
		}
	}
}
