package props

import (
	"bytes"
	"context"
	"errors"
	"fmt"
	"net"
	"strings"
	"time"

	"nhooyr.io/websocket"

	"verifsim/wsref"
)

// C06 — close handshake carries code and reason both ways and closes for good.

func init() {
	register(&Prop{ID: "C06", Run: runC06, Enum: enumC06, Quick: 12000, Thorough: 400000, Level: "exploration",
		Exhaustive: "scenario (a) library-initiated Close: all status codes 0..65535 plus -1, 65536, 1<<20 x both roles (thorough); boundary codes x reason lengths (quick)"})
}

// out-of-range values, among them some whose low 16 bits are a sendable code
var c06OutOfRange = []int{-1, 65536, 1 << 20, 65536 + 1000, 65536 + 1001, -65536 + 1000, 2*65536 + 3000, 1<<20 + 4999, 1<<32 + 1000, -1 << 31, 65536 + 1005}

const c06Codes = 65536 + 11

func c06Code(idx int) int {
	if idx >= 65536 {
		return c06OutOfRange[idx-65536]
	}
	return idx
}

var c06ReasonLens = []int{0, 1, 122, 123, 124, 130}
var c06BoundaryCodes = []int{0, 1, 999, 1000, 1001, 1002, 1003, 1004, 1005, 1006, 1007, 1008, 1009, 1010, 1011, 1012, 1013, 1014, 1015, 1016,
	1100, 2999, 3000, 3001, 3999, 4000, 4998, 4999, 5000, 5001, 32767, 32768, 65535, 65536, 65537, 65538, 65539, 65540, 65541, 65542, 65543, 65544, 65545, 65546}

func enumC06(tier string) [][]uint32 {
	var out [][]uint32
	if tier == "thorough" {
		for role := 0; role < 2; role++ {
			for idx := 0; idx < c06Codes; idx++ {
				// scen, role, codeIdx, reasonIdx (0 or 3 alternating), echo mode 0
				out = append(out, []uint32{0, uint32(role), uint32(idx), uint32((idx % 2) * 3), 0})
			}
		}
		for role := 0; role < 2; role++ {
			for idx := 0; idx < 65536; idx++ {
				if wsref.ValidWireCode(idx) {
					out = append(out, []uint32{1, uint32(role), uint32(idx), uint32(idx % 4)})
				}
			}
		}
		return out
	}
	for role := 0; role < 2; role++ {
		for _, code := range c06BoundaryCodes {
			for ri := range c06ReasonLens {
				out = append(out, []uint32{0, uint32(role), uint32(code), uint32(ri), 0})
			}
		}
	}
	return out
}

type c06Op struct {
	name      string
	invoke    int
	ret       int
	err       error
	isCloser  bool
	mustClose bool
}

func runC06(r *Run) {
	t := r.Tape
	scen := t.Draw(3) // 0 library initiates vs raw, 1 raw initiates, 2 libpair
	role := t.Draw(2)
	var code int
	var reason string
	switch scen {
	case 0:
		code = c06Code(t.Draw(c06Codes))
		if t.Pct(60) {
			// (most of the 65536 codes are unsendable; the runs that go on to the
			// handshake need a sendable one)
			code = goodCloseCodes[t.Draw(len(goodCloseCodes))]
		}
		reason = strings.Repeat("r", c06ReasonLens[t.Draw(len(c06ReasonLens))])
	case 1:
		code = t.Draw(65536)
		if !wsref.ValidWireCode(code) {
			code = goodCloseCodes[code%len(goodCloseCodes)]
		}
		reason = strings.Repeat("p", []int{0, 1, 50, 123}[t.Draw(4)])
	default:
		code = goodCloseCodes[t.Draw(len(goodCloseCodes))]
		if t.Pct(10) {
			code = 1005
		}
		reason = strings.Repeat("q", []int{0, 3, 123}[t.Draw(3)])
	}
	echoMode := t.Draw(4) // 0 same at once, 1 different code, 2 nothing, 3 same after a delay
	delay := []time.Duration{time.Millisecond, time.Second, 4 * time.Second, 6 * time.Second}[t.Draw(4)]
	readerMode := t.Draw(3)
	nBefore := t.Draw(3)
	compress := t.Draw(2) == 1
	r.S.Stick = []int{0, 60}[t.Draw(2)]
	r.DrawYields()
	peerDropsAfterEcho := t.Draw(2) == 1 // the peer closes its transport right after echoing
	closerHasCloseRead := t.Draw(3) == 2 // libpair: the closing side has CloseRead active
	// lib-initiates: the peer starts reading only after this long, so that writing the
	// Close frame takes a while (below the 5 s allowed for it) before the wait for the echo starts
	writeStall := []time.Duration{0, 0, 3 * time.Second, 4500 * time.Millisecond}[t.Draw(4)]
	r.S.MaxSim = 2 * time.Minute
	r.S.MaxSteps = 20000
	bg := context.Background()

	sig := fmt.Sprintf("scen=%d", scen)
	r.D("scenario", []string{"lib-initiates", "peer-initiates", "libpair"}[scen])
	r.D("role", role)
	r.D("code", code)
	r.D("reason_len", len(reason))
	r.D("echo_mode", echoMode)
	r.D("delay", delay.String())
	r.D("reader_mode", readerMode)
	r.D("msgs_before", nBefore)
	r.D("write_stall", writeStall.String())
	r.Nontrivial = true

	valid := wsref.ValidWireCode(code) && len(reason) <= 123
	wantPayload := wsref.ClosePayload(code, reason)
	if code == 1005 {
		valid = true
		wantPayload = nil
	}
	var post []*websocket.Conn // connections to run the post-close program on
	closerReturned := map[*websocket.Conn]int{}
	var ops []*c06Op

	switch scen {
	case 0: // --------------------------------------------------------------
		o := RawOpts{LibClient: role == 1}
		if compress {
			o.Mode, o.Ext = websocket.CompressionContextTakeover, "permessage-deflate"
		}
		rc, err := r.newRawConn("c0", o)
		if err != nil {
			r.Violate("handshake-failed", sig, "%v", err)
			return
		}
		c, peer := rc.C, rc.Peer
		// (the peer's frames, its Close frame included, may arrive in pieces)
		rc.Lib.In().RChunk = t.Weighted(4, 1, 2, 2, 2)
		sig = fmt.Sprintf("scen=0,valid=%v,echo=%d", valid, echoMode)
		r.Class = fmt.Sprintf("%s/code%s/r%d/rd%d", sig, codeClass(code), len(reason), readerMode%2)
		var closeErr error
		closeDone := false
		var readerErr error
		readerRet := false
		if readerMode%2 == 1 {
			r.S.Go("reader", func() {
				// data that arrives before the peer's Close may still be read
				for {
					if _, _, readerErr = c.Read(bg); readerErr != nil {
						break
					}
				}
				readerRet = true
			})
		}
		// crossing: while a data write is stuck in the transport (holding the frame lock)
		// the application calls Close and the peer's own Close frame arrives, so that two
		// Close payloads are prepared at about the same time
		crossing := writeStall > 0 && valid && readerMode%2 == 1 && t.Pct(50)
		crossPayload := wsref.ClosePayload(4001, "the peer closes at the same time")
		stalled := false
		if crossing {
			sig += ",crossing"
		}
		// impatient: while a data write is stuck in the transport (holding the frame
		// lock) a Ping with a short context gives up waiting for that lock; then the
		// application calls Close. The Close frame has to wait for the data frame to
		// finish and must arrive whole.
		impatient := writeStall > 0 && valid && !crossing && t.Pct(50)
		if impatient {
			sig += ",impatient-ping"
		}
		if writeStall > 0 {
			peer.Hold = func() bool { return stalled }
			sig += ",wstall"
			r.Class += "/wstall"
		}
		r.S.Go("closer", func() {
			r.S.Park("a.closer")
			if writeStall > 0 {
				stalled = true
				rc.Lib.Out().Cap = 0
				rc.Lib.Out().HardCap = true
				time.AfterFunc(writeStall, func() {
					stalled = false
					rc.Lib.Out().Cap = 1 << 30
					r.S.Kick()
				})
				r.S.Count("fault.close-frame-write-stalled")
			}
			if crossing {
				r.S.Go("blocked-writer", func() {
					c.Write(bg, websocket.MessageBinary, Payload{Kind: 2, Len: 3000, Seed: 5}.Bytes())
				})
				r.S.ParkE("a.closer.waitw", func() bool { return rc.Lib.InWriteLocked() || rc.Lib.ClosedLocked() }, nil)
				time.AfterFunc(300*time.Millisecond, func() {
					peer.Inject(peer.Encode(wsref.Frame{Fin: true, Opcode: wsref.OpClose, Payload: crossPayload}))
				})
				r.S.Count("probe.crossing-closes")
			}
			if impatient {
				r.S.Go("blocked-writer", func() {
					c.Write(bg, websocket.MessageBinary, Payload{Kind: 2, Len: 3000, Seed: 5}.Bytes())
				})
				r.S.ParkE("a.closer.waitw", func() bool { return rc.Lib.InWriteLocked() || rc.Lib.ClosedLocked() }, nil)
				pctx, cancel := context.WithTimeout(bg, 100*time.Millisecond)
				if perr := c.Ping(pctx); perr != nil {
					r.S.Count("probe.ping-gave-up-behind-a-stalled-write-before-close")
				}
				cancel()
			}
			closeErr = c.Close(websocket.StatusCode(code), reason)
			closeDone = true
			closerReturned[c] = r.S.Step()
		})
		r.S.Go("peer", func() {
			seen := 0
			echoed := false
			for {
				f := peer.Next(&seen)
				if f == nil {
					return
				}
				if f.Opcode != wsref.OpClose || echoed {
					continue
				}
				echoed = true
				for i := 0; i < nBefore; i++ {
					peer.Send(wsref.Frame{Fin: true, Opcode: wsref.OpText, Payload: []byte("late data")})
				}
				switch echoMode {
				case 0:
					peer.Send(wsref.Frame{Fin: true, Opcode: wsref.OpClose, Payload: f.Payload})
					if peerDropsAfterEcho {
						rc.Raw.Close()
						return
					}
				case 1:
					other := 1001
					if code == 1001 {
						other = 1000
					}
					peer.Send(wsref.Frame{Fin: true, Opcode: wsref.OpClose, Payload: wsref.ClosePayload(other, "other")})
				case 3:
					r.S.Sleep(delay)
					peer.Send(wsref.Frame{Fin: true, Opcode: wsref.OpClose, Payload: f.Payload})
				}
			}
		})
		r.S.Loop()
		if r.S.Aborted != "" {
			if r.S.Aborted == "sim-time" {
				r.Violate("stuck", sig, "close did not finish: parked=%v", r.S.ParkedIDs())
			}
			return
		}
		var closes []RxFrame
		for _, f := range peer.Frames {
			if f.Opcode == wsref.OpClose {
				closes = append(closes, f)
			}
		}
		if !closeDone {
			r.Violate("close-did-not-return", sig, "Close did not return")
			return
		}
		if peer.ParseErr != nil {
			r.Violate("emitted-stream-corrupt", sig, "the bytes emitted around the Close frame do not parse: %v", peer.ParseErr)
			return
		}
		if valid {
			if len(closes) == 0 {
				r.Violate("close-frame-missing", sig, "Close(%d, %d-byte reason) emitted no Close frame; err=%v", code, len(reason), closeErr)
			} else if !bytes.Equal(closes[0].Payload, wantPayload) && !(crossing && bytes.Equal(closes[0].Payload, crossPayload)) {
				// (with crossing closes the endpoint's one Close frame is either its own
				// or the echo of the peer's, never a mixture)
				r.Violate("close-frame-payload", sig, "Close(%d, %d-byte reason) emitted payload %x", code, len(reason), closes[0].Payload)
			}
			inTime := !crossing && (echoMode == 0 || echoMode == 3 && delay < 5*time.Second)
			if inTime && closeErr != nil && len(closes) > 0 {
				r.Violate("close-error-despite-echo", sig, "peer echoed code %d in time but Close returned %v", code, closeErr)
			}
		} else {
			if len(closes) > 0 {
				r.Violate("unsendable-close-sent", sig, "Close(%d, %d-byte reason) must not be sent, but a Close frame with payload %x was", code, len(reason), closes[0].Payload)
			}
			if closeErr == nil {
				r.Violate("unsendable-close-no-error", sig, "Close(%d, %d-byte reason) returned nil", code, len(reason))
			}
		}
		if readerMode%2 == 1 && (!readerRet || readerErr == nil) {
			r.Violate("read-after-close-ok", sig, "pending reader returned=%v err=%v after Close", readerRet, readerErr)
		}
		post = append(post, c)

	case 1: // --------------------------------------------------------------
		o := RawOpts{LibClient: role == 1}
		if compress {
			o.Mode, o.Ext = websocket.CompressionContextTakeover, "permessage-deflate"
		}
		rc, err := r.newRawConn("c0", o)
		if err != nil {
			r.Violate("handshake-failed", sig, "%v", err)
			return
		}
		c, peer := rc.C, rc.Peer
		rc.Lib.In().RChunk = t.Weighted(4, 1, 2, 2, 2)
		sig = fmt.Sprintf("scen=1,reader=%d", readerMode)
		r.Class = fmt.Sprintf("%s/code%s/r%d/n%d", sig, codeClass(code), len(reason), nBefore)
		var stream []byte
		for i := 0; i < nBefore; i++ {
			stream = append(stream, peer.Encode(wsref.Frame{Fin: true, Opcode: wsref.OpText, Payload: []byte(fmt.Sprintf("msg-%d", i))})...)
		}
		pl := wsref.ClosePayload(code, reason)
		stream = append(stream, peer.Encode(wsref.Frame{Fin: true, Opcode: wsref.OpClose, Payload: pl})...)
		var rerr error
		got := 0
		done := false
		// echoBehindWrite: an application write is stuck in the transport (the peer
		// reads 2 s late) when the peer's Close frame arrives, so the echo has to wait
		// for the frame lock; the context of the Read that received the Close frame
		// ends meanwhile. The echo belongs to the close handshake, not to that call:
		// it must still go out once the peer reads again.
		echoBehindWrite := readerMode != 1 && !peerDropsAfterEcho && t.Pct(20)
		holdPeer := false
		if echoBehindWrite {
			sig += ",echo-behind-write"
			holdPeer = true
			peer.Hold = func() bool { return holdPeer }
			rc.Lib.Out().Cap = 64
			rc.Lib.Out().HardCap = true
			r.S.Go("bgwriter", func() { c.Write(bg, websocket.MessageBinary, Payload{Kind: 2, Len: 3000, Seed: 5}.Bytes()) })
			time.AfterFunc(2*time.Second, func() {
				holdPeer = false
				r.S.Kick()
			})
			r.S.Count("probe.echo-queued-behind-a-stalled-write")
		}
		switch readerMode {
		case 0, 2:
			r.S.Go("reader", func() {
				if readerMode == 2 {
					r.S.Sleep(time.Second)
				}
				for {
					rctx := bg
					if echoBehindWrite {
						var cancel context.CancelFunc
						rctx, cancel = context.WithTimeout(bg, 1200*time.Millisecond)
						defer cancel()
					}
					_, _, e := c.Read(rctx)
					if e != nil {
						rerr = e
						break
					}
					got++
				}
				done = true
			})
		case 1:
			ctx := c.CloseRead(bg)
			r.S.Go("reader", func() {
				<-ctx.Done()
				r.S.Kick()
				done = true
			})
		}
		r.S.Go("peer", func() {
			r.S.Park("a.peer.send")
			if echoBehindWrite {
				r.S.ParkE("a.peer.wait-stuck-writer", func() bool { return rc.Lib.InWriteLocked() || rc.Lib.ClosedLocked() }, nil)
			}
			peer.SendBytes(stream)
			if peerDropsAfterEcho {
				// a peer that sends its Close frame and tears the transport down
				// at once: the echo cannot be written any more, the Close frame
				// was received all the same
				rc.Raw.Close()
				return
			}
			peer.Drain()
		})
		r.S.Loop()
		if r.S.Aborted != "" {
			if r.S.Aborted == "sim-time" {
				r.Violate("stuck", sig, "close did not finish: parked=%v", r.S.ParkedIDs())
			}
			return
		}
		var closes []RxFrame
		for _, f := range peer.Frames {
			if f.Opcode == wsref.OpClose {
				closes = append(closes, f)
			}
		}
		if peerDropsAfterEcho {
			// nobody was there to receive an echo
		} else if readerMode != 1 || nBefore == 0 {
			if len(closes) == 0 {
				r.Violate("close-not-echoed", sig, "peer's Close(%d) was not echoed", code)
			} else if !bytes.Equal(closes[0].Payload, pl) {
				r.Violate("close-echo-differs", sig, "peer sent Close(%d,%d-byte reason), echo payload %x", code, len(reason), closes[0].Payload)
			}
		}
		if readerMode != 1 {
			var ce websocket.CloseError
			switch {
			case !done || rerr == nil:
				r.Violate("close-not-reported", sig, "reader done=%v err=%v", done, rerr)
			case got != nBefore:
				r.Violate("messages-before-close", sig, "%d of %d messages before the Close were delivered; err %v", got, nBefore, rerr)
			case !errors.As(rerr, &ce):
				r.Violate("close-not-reported", sig, "peer sent Close(%d) but the read failed with %v", code, rerr)
			case int(ce.Code) != code || ce.Reason != reason || int(websocket.CloseStatus(rerr)) != code:
				r.Violate("close-misreported", sig, "peer sent Close(%d,%q), read reported (%d,%q), CloseStatus=%d", code, reason, ce.Code, ce.Reason, websocket.CloseStatus(rerr))
			}
		}
		post = append(post, c)

	default: // -------------------------------------------------------------
		o := PairOpts{}
		if compress {
			o.CMode, o.SMode = websocket.CompressionContextTakeover, websocket.CompressionNoContextTakeover
		}
		cli, srv, pce, pse, err := r.LibPair("p0", o)
		if err != nil {
			r.Violate("handshake-failed", sig, "%v", err)
			return
		}
		pce.In().RChunk = t.Weighted(4, 1, 2, 2, 2)
		pse.In().RChunk = t.Weighted(4, 1, 2, 2, 2)
		a, b := cli, srv
		if role == 1 {
			a, b = srv, cli
		}
		sig = fmt.Sprintf("scen=2,reader=%d", readerMode)
		r.Class = fmt.Sprintf("%s/code%s/role%d", sig, codeClass(code), role)
		var closeErr, rerr error
		got := 0
		if closerHasCloseRead {
			a.CloseRead(bg)
		}
		r.S.Go("closer", func() {
			for i := 0; i < nBefore; i++ {
				r.S.Park("a.closer.w")
				if err := a.Write(bg, websocket.MessageText, []byte("before")); err != nil {
					r.Violate("write-error", sig, "write before close failed: %v", err)
					return
				}
			}
			r.S.Park("a.closer")
			closeErr = a.Close(websocket.StatusCode(code), reason)
			closerReturned[a] = r.S.Step()
		})
		r.S.Go("reader", func() {
			if readerMode == 2 {
				r.S.Sleep(time.Second)
			}
			for {
				_, _, e := b.Read(bg)
				if e != nil {
					rerr = e
					return
				}
				got++
			}
		})
		r.S.Loop()
		if r.S.Aborted != "" {
			if r.S.Aborted == "sim-time" {
				r.Violate("stuck", sig, "close did not finish: parked=%v", r.S.ParkedIDs())
			}
			return
		}
		var ce websocket.CloseError
		wantReason := reason
		if code == 1005 {
			wantReason = ""
		}
		switch {
		case got != nBefore:
			r.Violate("messages-before-close", sig, "%d of %d messages before the Close were delivered; err %v", got, nBefore, rerr)
		case !errors.As(rerr, &ce):
			r.Violate("close-not-reported", sig, "Close(%d) by the peer library, read failed with %v", code, rerr)
		case int(ce.Code) != code || ce.Reason != wantReason:
			r.Violate("close-misreported", sig, "Close(%d,%q) reported as (%d,%q)", code, wantReason, ce.Code, ce.Reason)
		}
		if closeErr != nil && readerMode != 2 {
			r.Violate("close-error-despite-echo", sig, "peer library echoed but Close returned %v", closeErr)
		}
		post = append(post, a, b)
	}
	if len(r.Viol) > 0 {
		return
	}
	// ---- (d) after the connection is closed
	r.postCloseProgram(sig, post, closerReturned, &ops)
}

func codeClass(c int) string {
	switch {
	case c < 0 || c > 65535:
		return "oor"
	case c < 1000:
		return "<1000"
	case c <= 1015:
		return fmt.Sprint(c)
	case c < 3000:
		return "1016-2999"
	case c < 5000:
		return "3000-4999"
	}
	return ">=5000"
}

// postCloseProgram runs a drawn program of calls on closed connections.
func (r *Run) postCloseProgram(sig string, conns []*websocket.Conn, closerReturned map[*websocket.Conn]int, ops *[]*c06Op) {
	t := r.Tape
	bg := context.Background()
	type plan struct {
		c    *websocket.Conn
		kind []int
		name string
	}
	var plans []plan
	for ci, c := range conns {
		na := 1 + t.Draw(2)
		for a := 0; a < na; a++ {
			p := plan{c: c, name: fmt.Sprintf("post%d.%d", ci, a)}
			for n := 2 + t.Draw(5); n > 0; n-- {
				p.kind = append(p.kind, t.Draw(6))
			}
			plans = append(plans, p)
		}
	}
	type rec struct {
		c           *websocket.Conn
		kind        int
		invoke, ret int
		err         error
		name        string
	}
	var recs []*rec
	for _, p := range plans {
		p := p
		r.S.Go(p.name, func() {
			for _, k := range p.kind {
				r.S.Park("a." + p.name)
				rc := &rec{c: p.c, kind: k, invoke: r.S.Step(), name: p.name}
				ctx, cancel := context.WithTimeout(bg, 2*time.Second)
				switch k {
				case 0:
					_, _, rc.err = p.c.Read(ctx)
				case 1:
					rc.err = p.c.Write(ctx, websocket.MessageText, []byte("after close"))
				case 2:
					// (Writer itself has to fail, not only the writes through it)
					_, rc.err = p.c.Writer(ctx, websocket.MessageBinary)
				case 3:
					rc.err = p.c.Ping(ctx)
				case 4:
					rc.err = p.c.Close(websocket.StatusNormalClosure, "again")
				case 5:
					rc.err = p.c.CloseNow()
				}
				cancel()
				rc.ret = r.S.Step()
				recs = append(recs, rc)
			}
		})
	}
	r.S.Loop()
	if r.S.Aborted == "sim-time" {
		r.Violate("stuck", sig+",post", "calls on a closed connection did not return: parked=%v", r.S.ParkedIDs())
		return
	}
	names := []string{"Read", "Write", "Writer", "Ping", "Close", "CloseNow"}
	for _, rc := range recs {
		if rc.kind <= 3 {
			if rc.err == nil {
				r.Violate("call-succeeds-after-close", sig+",post="+names[rc.kind], "%s returned nil on a closed connection", names[rc.kind])
			}
			continue
		}
		// Close / CloseNow: has one of them returned before this one started?
		prior := false
		if st, ok := closerReturned[rc.c]; ok && st <= rc.invoke {
			prior = true
		}
		for _, o := range recs {
			if o != rc && o.c == rc.c && o.kind >= 4 && o.ret <= rc.invoke && (o.ret < rc.invoke || o.name == rc.name) {
				prior = true
			}
		}
		if prior {
			r.S.Count("probe.close-after-close-checked")
			if !errors.Is(rc.err, net.ErrClosed) {
				r.Violate("close-after-close", sig+",post="+names[rc.kind], "%s after an earlier Close/CloseNow had returned gave %v, want an error matching net.ErrClosed", names[rc.kind], rc.err)
			}
		}
	}
}
