package props

import (
	"errors"
	"bytes"
	"context"
	"fmt"
	"io"
	"sync/atomic"
	"time"

	"nhooyr.io/websocket"

	"verifsim/simrt"
	"verifsim/wsref"
)

// C05 — concurrent use keeps frames atomic, messages unmixed and is free of
// data races (the latter through the race-detector build of the same seeds).

func init() {
	register(&Prop{ID: "C05", Run: runC05, Quick: 10000, Thorough: 150000, Level: "exploration", Race: true})
}

var c05Closers = []string{"close-after-writers", "Close-at-step", "CloseNow-at-step", "reader-ctx-expiry", "peer-Close-at-step"}

// c05Check verifies one received (possibly partial) message against the
// writer-tagged format. complete=false means only a prefix was handed over.
func c05Check(r *Run, sig string, data []byte, complete bool, lastSeq map[int]int, where string) bool {
	if len(data) < 8 {
		if complete {
			r.Violate("message-mangled", sig, "%s: a complete message of %d bytes was received, every written message has at least 16", where, len(data))
			return false
		}
		return true
	}
	w := int(data[0] &^ 0x80)
	seq := int(data[2])<<8 | int(data[3])
	if data[0]&0xC0 != 0x80 || data[1] != 0x40|2 {
		r.Violate("message-mangled", sig, "%s: received bytes do not start with a writer tag: %x", where, data[:8])
		return false
	}
	want := tagged(w, 2, seq, len(data))
	if !bytes.Equal(data, want) {
		k := firstDiff(data, want)
		r.Violate("messages-mixed", sig, "%s: message of writer %d seq %d differs from what that writer wrote at byte %d of %d; the bytes there %s", where, w, seq, k, len(data), whose(data[k:]))
		return false
	}
	if complete {
		if last, ok := lastSeq[w]; ok && seq <= last {
			r.Violate("order-or-duplicate", sig, "%s: writer %d message seq %d received after seq %d", where, w, seq, last)
			return false
		}
		lastSeq[w] = seq
	}
	return true
}

func runC05(r *Run) {
	t := r.Tape
	if t.Pct(10) {
		c05ConcurrentCloseRead(r)
		return
	}
	pair := t.Pct(60)
	nW := 2 + t.Draw(4)
	nP := t.Draw(3)
	closer := t.Draw(len(c05Closers))
	fireAfter := 1 + t.Draw(40)
	r.DrawYields()
	r.S.Stick = []int{0, 40, 80}[t.Draw(3)]
	r.S.MaxSteps = 60000
	r.S.MaxSim = 3 * time.Minute
	bg := context.Background()
	type wplan struct {
		id    int
		n     int
		sizes []int
		api   []int
	}
	var writers []wplan
	for i := 0; i < nW; i++ {
		wp := wplan{id: i + 1, n: 1 + t.Draw(5)}
		for j := 0; j < wp.n; j++ {
			wp.sizes = append(wp.sizes, 16+[]int{0, 100, 109, 500, 4080, 9000, 30000}[t.Draw(7)]+t.Draw(16))
			wp.api = append(wp.api, t.Draw(2))
		}
		writers = append(writers, wp)
	}
	var a, b *websocket.Conn // a: the endpoint under concurrent use; b: its library peer (pair mode)
	var rc *rawConn
	var libIsClient bool
	var neg Negotiated
	var pce, pse *simrt.End
	if pair {
		o := PairOpts{CMode: modes[t.Draw(3)], SMode: modes[t.Draw(3)], CThresh: threshChoices[t.Draw(len(threshChoices))], SThresh: threshChoices[t.Draw(len(threshChoices))]}
		cli, srv, ce, se, err := r.LibPair("p0", o)
		pce, pse = ce, se
		if err != nil {
			r.Violate("handshake-failed", "pair", "%v", err)
			return
		}
		libIsClient = t.Draw(2) == 1
		a, b = srv, cli
		out := se.Out()
		if libIsClient {
			a, b = cli, srv
			out = ce.Out()
		}
		out.TapOn = true
		out.Cap = []int{1 << 30, 4096, 512, 64}[t.Draw(4)]
		out.WChunk = t.Weighted(4, 1, 2, 2, 2)
		out.OpBudget = 2500
		if t.Pct(30) {
			out.DelayPct, out.Delays = 5, []time.Duration{time.Millisecond, 20 * time.Millisecond} // (small: the library bounds pong writes to 5 s)
		}
		defl, nct := o.Deflate()
		neg = Negotiated{Deflate: defl, CNCT: nct, SNCT: nct}
		b.SetReadLimit(-1)
		defer func() {
			// (1) the wire: parse what the endpoint emitted up to the close
			frames, _, _, perr := wsref.ParseAll(out.Tap)
			if perr != nil {
				r.Violate("unparsable", "pair", "emitted bytes do not parse: %v", perr)
				return
			}
			var rx []RxFrame
			for _, f := range frames {
				rx = append(rx, RxFrame{Frame: f})
			}
			checkEmitted(r, fmt.Sprintf("pair,cli=%v", libIsClient), rx, libIsClient, neg, !nct)
		}()
	} else {
		var err error
		rc, err = r.drawRawConn("c0", 0)
		if err != nil {
			r.Violate("handshake-failed", "raw", "%v", err)
			return
		}
		a = rc.C
		libIsClient = rc.Opts.LibClient
		neg = rc.Neg
		rc.Lib.Out().Cap = []int{1 << 30, 4096, 512, 64}[t.Draw(4)]
		rc.Lib.Out().WChunk = t.Weighted(4, 1, 2, 2, 2)
		rc.Lib.Out().OpBudget = 2500
	}
	// A stall: the receiving side stops draining for a while, so that frame
	// writers block in the transport, callers queue on the locks behind them and
	// short contexts (pingers) end while they wait.
	stall := t.Pct(25)
	stallDur := []time.Duration{2500 * time.Millisecond, 8 * time.Second}[t.Draw(2)]
	stallAfter := 1 + t.Draw(30)
	pingCtx := make([]time.Duration, nP)
	for i := range pingCtx {
		pingCtx[i] = 20 * time.Second
		if stall {
			pingCtx[i] = []time.Duration{time.Second, 2 * time.Second, 20 * time.Second}[t.Draw(3)]
		}
		// (no two deadlines of a run fall on the same instant: what happens when two
		// timers are due together is decided by the Go runtime, not by the seed)
		pingCtx[i] += time.Duration(i+1) * 211 * time.Microsecond
	}
	// with a stall some writers have their own short context: a Write/Close that gives
	// up while it waits for a lock fails without closing the connection, and the
	// stream must stay a well-formed prefix whatever the other writers do next
	writerCtx := make([]time.Duration, nW)
	for i := range writerCtx {
		if stall && t.Pct(50) {
			writerCtx[i] = []time.Duration{1500 * time.Millisecond, 3 * time.Second}[t.Draw(2)] + time.Duration(i+1)*137*time.Microsecond
		}
	}
	smallPipe := false
	peerPings := 0
	if stall && !pair {
		peerPings = t.Draw(4)
	}
	// small-frames plan (a third of the stall runs): every message fits into the
	// write buffer and goes through a streaming Writer, the pipe is tiny, at least
	// one pinger with a long context is around. Then it is control frames, not data
	// frames, that get stuck in the transport holding the frame lock, and the
	// writers' calls (Writer, Write, Close) give up one by one while queued behind them.
	if stall && t.Pct(33) {
		for i := range writers {
			for j := range writers[i].sizes {
				writers[i].sizes[j] = 16 + t.Draw(100)
				writers[i].api[j] = 1
			}
		}
		if nP == 0 {
			nP = 1
			pingCtx = append(pingCtx, 20*time.Second)
		}
		smallPipe = true
		r.S.Count("probe.small-frames-stall-plan")
	}
	holding := false
	if stall {
		var libOut *simrt.Dir
		var peerEnd *simrt.End
		if pair {
			libOut, peerEnd = pse.Out(), pce
			if libIsClient {
				libOut, peerEnd = pce.Out(), pse
			}
		} else {
			libOut, peerEnd = rc.Lib.Out(), rc.Raw
		}
		if libOut.Cap > 4096 {
			libOut.Cap = 4096
		}
		if smallPipe {
			libOut.Cap = 16
		}
		libOut.HardCap = true
		peerEnd.RGate = func() bool { return !holding }
		r.S.Count("fault.receiver-stall")
	}
	sig := fmt.Sprintf("pair=%v,closer=%s", pair, c05Closers[closer])
	if stall {
		sig += ",stall"
	}
	r.Class = fmt.Sprintf("%s/w%d/p%d/cli%v/d%v", sig, nW, nP, libIsClient, neg.Deflate)
	r.D("pair", pair)
	r.D("role_lib_client", libIsClient)
	r.D("writers", fmt.Sprintf("%+v", writers))
	r.D("pingers", nP)
	r.D("closer", c05Closers[closer])
	r.D("fire_after", fireAfter)
	r.Nontrivial = true

	aClosed := func() bool {
		if !pair {
			return rc.Lib.Closed()
		}
		if libIsClient {
			return pce.Closed()
		}
		return pse.Closed()
	}
	var live, failed atomic.Int32
	var readerDone atomic.Bool // a's reader returned: the application's cue to close
	var closing atomic.Bool
	for _, wp := range writers {
		wp := wp
		name := fmt.Sprintf("w%d", wp.id)
		live.Add(1)
		r.S.Go(name, func() {
			defer live.Add(-1)
			for j := 0; j < wp.n; j++ {
				r.S.Park("a." + name)
				data := tagged(wp.id, 2, j, wp.sizes[j])
				var err error
				bg := bg
				if d := writerCtx[wp.id-1]; d > 0 {
					var cancel context.CancelFunc
					bg, cancel = context.WithTimeout(bg, d)
					defer cancel()
				}
				if wp.api[j] == 0 {
					err = a.Write(bg, websocket.MessageBinary, data)
				} else {
					var w io.WriteCloser
					w, err = a.Writer(bg, websocket.MessageBinary)
					if err == nil {
						h := len(data) / 3
						if _, err = w.Write(data[:h]); err == nil {
							r.S.Park("a." + name + ".mid")
							_, err = w.Write(data[h:])
						}
						if err == nil {
							// (a control frame of another goroutine may take the frame lock
							// between the last chunk and the final frame)
							r.S.Park("a." + name + ".preclose")
							err = w.Close()
						}
					}
				}
				if err != nil {
					failed.Add(1)
					if !closing.Load() {
						r.Violate("write-error", sig, "writer %d message %d failed before any close: %v", wp.id, j, err)
					}
					return
				}
			}
		})
	}
	for i := 0; i < nP; i++ {
		i := i
		name := fmt.Sprintf("p%d", i)
		live.Add(1)
		r.S.Go(name, func() {
			defer live.Add(-1)
			for j := 0; j < 4; j++ {
				r.S.Park("a." + name)
				ctx, cancel := context.WithTimeout(bg, pingCtx[i])
				err := a.Ping(ctx)
				cancel()
				// (once the transport is closed the error class of a ping that gives up at
				// the same instant is the runtime's choice among ready select cases: the
				// pinger's next step must not depend on it)
				if err != nil && (aClosed() || !(stall && errors.Is(err, context.DeadlineExceeded))) {
					return
				}
			}
		})
	}
	// a's own reader (answers pings, processes pongs)
	live.Add(1)
	r.S.Go("a.reader", func() {
		defer live.Add(-1)
		defer readerDone.Store(true)
		for {
			if _, _, err := a.Read(bg); err != nil {
				return
			}
		}
	})
	if stall {
		r.S.Go("staller", func() {
			for n := 0; n < stallAfter; n++ {
				r.S.Park("a.staller")
			}
			if closing.Load() {
				return
			}
			// from here on a frame writer may hold the frame lock for longer than a
			// control frame's 5 s bound or a pinger's context, which closes the connection
			closing.Store(true)
			for k := 0; k < peerPings; k++ {
				rc.Peer.Inject(rc.Peer.Encode(wsref.Frame{Fin: true, Opcode: wsref.OpPing, Payload: []byte{byte('a' + k)}}))
			}
			holding = true
			r.S.Sleep(stallDur)
			holding = false
			r.S.Kick()
		})
	}
	lastSeq := map[int]int{}
	if pair {
		// b reads what a's writers send; its context may expire mid-message
		rctx := bg
		var rcancel context.CancelFunc
		if closer == 3 {
			rctx, rcancel = context.WithCancel(bg)
		}
		r.S.Go("b.reader", func() {
			buf := make([]byte, []int{512, 7, 4096}[nW%3])
			for {
				_, rd, err := b.Reader(rctx)
				if err != nil {
					return
				}
				var data []byte
				for k := 0; ; k++ {
					if k%3 == 1 {
						// between two Read calls of one message nobody holds the read
						// lock: a scheduling point lets a Close slip in right there
						r.S.Park("a.b.reader.mid")
					}
					n, e := rd.Read(buf)
					data = append(data, buf[:n]...)
					if e == io.EOF {
						if !c05Check(r, sig, data, true, lastSeq, "peer endpoint") {
							return
						}
						break
					}
					if e != nil {
						// (3) a read that races with the close: what it returned is a prefix
						c05Check(r, sig, data, false, lastSeq, "peer endpoint (read interrupted by the close)")
						if len(data) > 0 {
							r.S.Count("probe.read-interrupted-with-prefix")
						}
						return
					}
				}
			}
		})
		r.S.Go("closer", func() {
			switch closer {
			case 0:
				r.S.ParkE("a.closer", func() bool { return live.Load() <= 1 || readerDone.Load() || failed.Load() > 0 }, nil)
				closing.Store(true)
				a.Close(websocket.StatusNormalClosure, "done")
			case 1, 2, 3, 4:
				for n := 0; n < fireAfter; n++ {
					r.S.Park("a.closer")
				}
				closing.Store(true)
				switch closer {
				case 1:
					a.Close(websocket.StatusNormalClosure, "now")
				case 2:
					a.CloseNow()
				case 3:
					rcancel()
					r.S.Sleep(time.Second)
					a.CloseNow()
				case 4:
					b.Close(websocket.StatusGoingAway, "peer")
				}
			}
			r.S.ParkE("a.closer.wait", func() bool { return live.Load() == 0 || r.S.Now() > 90*time.Second }, nil)
			a.CloseNow()
			b.CloseNow()
		})
		time.AfterFunc(91*time.Second, r.S.Kick)
	} else {
		peer := rc.Peer
		r.S.Go("peer", func() {
			seen := 0
			for {
				f := peer.Next(&seen)
				if f == nil {
					return
				}
				switch f.Opcode {
				case wsref.OpPing:
					peer.Send(wsref.Frame{Fin: true, Opcode: wsref.OpPong, Payload: f.Payload})
				case wsref.OpClose:
					peer.Send(wsref.Frame{Fin: true, Opcode: wsref.OpClose, Payload: f.Payload})
				}
			}
		})
		r.S.Go("closer", func() {
			switch closer {
			case 0, 3:
				r.S.ParkE("a.closer", func() bool { return live.Load() <= 1 || readerDone.Load() || failed.Load() > 0 }, nil)
				closing.Store(true)
				a.Close(websocket.StatusNormalClosure, "done")
			default:
				for n := 0; n < fireAfter; n++ {
					r.S.Park("a.closer")
				}
				closing.Store(true)
				switch closer {
				case 1:
					a.Close(websocket.StatusNormalClosure, "now")
				case 2:
					a.CloseNow()
				case 4:
					peer.Send(wsref.Frame{Fin: true, Opcode: wsref.OpClose, Payload: wsref.ClosePayload(1001, "peer")})
				}
			}
			r.S.ParkE("a.closer.wait", func() bool { return live.Load() == 0 || r.S.Now() > 90*time.Second }, nil)
			a.CloseNow()
		})
		time.AfterFunc(91*time.Second, r.S.Kick)
	}
	r.S.Loop()
	if r.S.Aborted != "" {
		if r.S.Aborted == "sim-time" {
			r.Violate("stuck", sig, "concurrent program did not finish: parked=%v; inside the library: %q", r.S.ParkedIDs(), blockedInLibrary())
		}
		return
	}
	if !pair {
		peer := rc.Peer
		if peer.ParseErr != nil {
			r.Violate("unparsable", sig, "emitted bytes do not parse: %v", peer.ParseErr)
			return
		}
		msgs, _, _ := checkEmitted(r, sig, peer.Frames, libIsClient, neg, rc.LibTake)
		for i, m := range msgs {
			if !c05Check(r, sig, m.Payload, true, lastSeq, fmt.Sprintf("wire message %d", i)) {
				return
			}
		}
	}
	// (with a stall the peer endpoint of a pair may give up by itself: a control
	// frame that takes more than 5 s to arrive closes it)
	if closer == 0 && len(r.Viol) == 0 && failed.Load() == 0 && !(stall && pair) {
		// nothing interrupted the writers: everything must have arrived
		for _, wp := range writers {
			if last, ok := lastSeq[wp.id]; !ok || last != wp.n-1 {
				r.Violate("message-lost", sig, "writer %d wrote %d messages without error, the last one received has seq %d", wp.id, wp.n, lastSeq[wp.id])
			}
		}
	}
}
