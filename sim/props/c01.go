package props

import (
	"bytes"
	"context"
	"fmt"
	"io"

	"nhooyr.io/websocket"

	"verifsim/simrt"
	"verifsim/wsref"
)

// C01 — message round-trip fidelity (libpair + independent tap decode).

func init() {
	register(&Prop{ID: "C01", Run: runC01, Enum: enumC01, Quick: 6000, Thorough: 400000, Level: "exploration"})
}

type sentMsg struct {
	Typ   websocket.MessageType
	P     Payload
	Data  []byte
	API   int   // 0 Write, 1 Writer
	Chunk []int // chunk lengths for Writer
}

var modes = []websocket.CompressionMode{websocket.CompressionDisabled, websocket.CompressionContextTakeover, websocket.CompressionNoContextTakeover}
var threshChoices = []int{0, 1, 16, 127, 128, 129, 511, 512, 513, 4096, 70000}

func drawMessages(r *Run, n int, maxLen int, extra []int) []sentMsg {
	t := r.Tape
	var out []sentMsg
	for i := 0; i < n; i++ {
		var m sentMsg
		m.Typ = websocket.MessageType(1 + t.Draw(2))
		if i > 0 && t.Pct(15) {
			// echo of an earlier message (back-references under takeover)
			src := out[t.Draw(len(out))]
			m.P = src.P
			m.Data = append([]byte(nil), src.Data...)
		} else if i > 0 && len(out[len(out)-1].Data) > 64 && t.Pct(15+35*b2i(len(out[len(out)-1].Data) >= 32768)) {
			// a slice out of the previous message, so that back-references reach
			// a drawn distance into the window (log-like repetition)
			src := out[len(out)-1]
			a := t.Draw(len(src.Data) - 32)
			n := 32 + t.Draw(len(src.Data)-a-31)
			m.P = Payload{Kind: 9, Len: n, Seed: uint32(a)}
			m.Data = append([]byte(nil), src.Data[a:a+n]...)
		} else {
			m.P = DrawPayload(t, maxLen, extra...)
			m.Data = m.P.Bytes()
		}
		m.API = t.Draw(2)
		if m.API == 1 {
			rem := len(m.Data)
			nch := 1 + t.Draw(5)
			for j := 0; j < nch && rem >= 0; j++ {
				var k int
				switch t.Weighted(3, 2, 2, 1) {
				case 0:
					k = rem
				case 1:
					k = t.Draw(rem + 1)
				case 2:
					k = 0
				default:
					k = 4096 - t.Draw(3)
				}
				if k > rem {
					k = rem
				}
				m.Chunk = append(m.Chunk, k)
				rem -= k
				if rem == 0 && t.Pct(70) {
					break
				}
			}
			if rem > 0 {
				m.Chunk = append(m.Chunk, rem)
			}
		}
		out = append(out, m)
	}
	return out
}

// writeMsg performs one message write through the drawn API and checks that
// the caller's buffers are unchanged.
func writeMsg(r *Run, c *websocket.Conn, ctx context.Context, m sentMsg, who string) error {
	snap := append([]byte(nil), m.Data...)
	ib := &inflightBuf{who: who, data: m.Data, snap: snap}
	r.inflight = append(r.inflight, ib)
	defer func() {
		for i, b := range r.inflight {
			if b == ib {
				r.inflight = append(r.inflight[:i], r.inflight[i+1:]...)
				break
			}
		}
	}()
	var err error
	if m.API == 0 {
		err = c.Write(ctx, m.Typ, m.Data)
	} else {
		var w io.WriteCloser
		w, err = c.Writer(ctx, m.Typ)
		if err == nil {
			off := 0
			for _, k := range m.Chunk {
				r.S.Park("a." + who + ".chunk")
				var n int
				n, err = w.Write(m.Data[off : off+k])
				if err != nil {
					break
				}
				if n != k {
					err = fmt.Errorf("short write %d of %d without error", n, k)
					break
				}
				off += k
			}
			if err == nil {
				r.S.Park("a." + who + ".wclose")
				err = w.Close()
			}
		}
	}
	if !bytes.Equal(snap, m.Data) {
		r.Violate("caller-buffer-modified", "write", "%s: buffer passed to write was modified (len %d)", who, len(snap))
	}
	return err
}

// readMsg reads one message with the drawn API / buffer size.
func readMsg(r *Run, c *websocket.Conn, ctx context.Context, api int, bufSize int, who string) (websocket.MessageType, []byte, error) {
	if api == 0 {
		return c.Read(ctx)
	}
	typ, rd, err := c.Reader(ctx)
	if err != nil {
		return 0, nil, err
	}
	var out []byte
	buf := make([]byte, bufSize)
	for {
		n, err := rd.Read(buf)
		out = append(out, buf[:n]...)
		if err == io.EOF {
			return typ, out, nil
		}
		if err != nil {
			return typ, out, err
		}
		if n == 0 {
			r.S.Count("read.zero-nil")
		}
	}
}

var readBufSizes = []int{4096, 1, 3, 7, 512, 65536, 32768}

func firstDiff(a, b []byte) int {
	n := len(a)
	if len(b) < n {
		n = len(b)
	}
	for i := 0; i < n; i++ {
		if a[i] != b[i] {
			return i
		}
	}
	if len(a) != len(b) {
		return n
	}
	return -1
}

// enumC01: the first run of every worker process is the "early second pair"
// scenario (forced first word), which looks for state that one handshake leaves
// behind in the process and that only hurts connections that are already open:
// later runs of the same process cannot see such state change any more.
func enumC01(tier string) [][]uint32 {
	var out [][]uint32
	for i := 0; i < 32; i++ {
		out = append(out, []uint32{1})
	}
	return out
}

func runC01(r *Run) {
	t := r.Tape
	earlySecond := t.Draw(50) == 1
	o := PairOpts{CMode: modes[t.Draw(3)], SMode: modes[t.Draw(3)]}
	o.CThresh = threshChoices[t.Draw(len(threshChoices))]
	o.SThresh = threshChoices[t.Draw(len(threshChoices))]
	big := t.Pct(4)
	maxLen := 70000
	if big {
		maxLen = 1<<20 + 4097
	}
	nC2S := t.Draw(9)
	nS2C := t.Draw(9)
	if nC2S+nS2C == 0 {
		nC2S = 1
	}
	extra := []int{o.CThresh, o.SThresh, 128, 512}
	c2s := drawMessages(r, nC2S, 70000, extra)
	s2c := drawMessages(r, nS2C, 70000, extra)
	if big {
		// one message >= 1 MiB
		p := Payload{Kind: t.Weighted(3, 1, 2, 3), Len: 1<<20 + t.Draw(4098), Seed: t.U32()}
		m := sentMsg{Typ: websocket.MessageBinary, P: p, Data: p.Bytes(), API: t.Draw(2)}
		if m.API == 1 {
			m.Chunk = []int{len(m.Data) / 3, 4096, len(m.Data) - len(m.Data)/3 - 4096}
		}
		if len(c2s) > 0 {
			c2s[t.Draw(len(c2s))] = m
		} else {
			s2c[t.Draw(len(s2c))] = m
		}
	}
	_ = maxLen
	if earlySecond {
		// both sides keep their compression context; every message repeats the same
		// content, so each one after the first refers back to its predecessors
		o = PairOpts{CMode: websocket.CompressionContextTakeover, SMode: websocket.CompressionContextTakeover}
		p := Payload{Kind: 3, Len: 900, Seed: 99}
		c2s, s2c = nil, nil
		for i := 0; i < 4; i++ {
			c2s = append(c2s, sentMsg{Typ: websocket.MessageBinary, P: p, Data: p.Bytes()})
			s2c = append(s2c, sentMsg{Typ: websocket.MessageText, P: p, Data: p.Bytes()})
		}
	}
	cli, srv, ce, se, err := r.LibPair("p0", o)
	if err != nil {
		r.Violate("handshake-failed", "libpair", "libpair handshake failed: %v", err)
		return
	}
	cli.SetReadLimit(-1)
	srv.SetReadLimit(-1)
	vol := 0
	for _, m := range c2s {
		vol += len(m.Data)
	}
	for _, m := range s2c {
		vol += len(m.Data)
	}
	ce.Out().TapOn, se.Out().TapOn = true, true
	r.DrawNetKnobs(vol, ce.Out(), se.Out())
	r.S.MaxSteps = 80000

	defl, nct := o.Deflate()
	// reach probes (computed from the plan, not from library internals)
	for di, ms := range [][]sentMsg{c2s, s2c} {
		thr := o.CThresh
		if di == 1 {
			thr = o.SThresh
		}
		if thr == 0 {
			thr = 128
			if nct {
				thr = 512
			}
		}
		hist := 0
		for _, m := range ms {
			n := len(m.Data)
			if defl && n >= thr {
				if hist > 0 && hist+n > 32768 && !nct {
					r.S.Count("probe.window-shift-under-takeover")
				}
				hist += n
			}
			if n == thr || n == thr-1 || n == thr+1 {
				r.S.Count("probe.threshold-boundary")
			}
			if n >= 1<<20 {
				r.S.Count("probe.message>=1MiB")
			}
		}
	}
	r.Class = fmt.Sprintf("c%d/s%d/%v/%v", o.CMode, o.SMode, big, vol > 32768)
	r.D("opts", fmt.Sprintf("%+v", o))
	r.D("c2s", describe(c2s))
	r.D("s2c", describe(s2c))
	r.Nontrivial = true

	type dirRun struct {
		name  string
		w, rd *websocket.Conn
		msgs  []sentMsg
		got   int
	}
	dirs := []*dirRun{{"c2s", cli, srv, c2s, 0}, {"s2c", srv, cli, s2c, 0}}
	for _, d := range dirs {
		d := d
		if len(d.msgs) == 0 {
			continue
		}
		r.S.Go("w."+d.name, func() {
			for i, m := range d.msgs {
				r.S.Park("a.w." + d.name)
				if err := writeMsg(r, d.w, context.Background(), m, "w."+d.name); err != nil {
					r.Violate("write-error", "write", "%s: write of message %d (%s) failed without faults: %v", d.name, i, m.P, err)
					return
				}
			}
		})
		rapi := t.Draw(2)
		rbuf := readBufSizes[t.Draw(len(readBufSizes))]
		r.S.Go("r."+d.name, func() {
			for i, m := range d.msgs {
				r.S.Park("a.r." + d.name)
				typ, got, err := readMsg(r, d.rd, context.Background(), rapi, rbuf, "r."+d.name)
				if err != nil {
					r.Violate("read-error", "read", "%s: read of message %d (%s) failed without faults: %v", d.name, i, m.P, err)
					return
				}
				if typ != m.Typ {
					r.Violate("type-mismatch", "read", "%s: message %d type %v, sent %v", d.name, i, typ, m.Typ)
				}
				if k := firstDiff(got, m.Data); k >= 0 {
					r.Violate("payload-mismatch", "read", "%s: message %d (%s api=%d chunks=%v) differs at byte %d (got len %d, sent len %d)", d.name, i, m.P, m.API, m.Chunk, k, len(got), len(m.Data))
				}
				d.got++
				r.S.ALog("r."+d.name, "msg %d len %d", i, len(got))
			}
		})
	}
	// a second pair of endpoints in the same process, negotiated (with other modes)
	// while the first pair is exchanging messages: nothing of its handshake or
	// traffic may affect the first pair
	if t.Pct(30) || earlySecond {
		o2 := PairOpts{CMode: modes[t.Draw(3)], SMode: modes[t.Draw(3)]}
		after := t.Draw(20)
		if earlySecond {
			// a client that asks for no context takeover, a server that would keep it
			o2 = PairOpts{CMode: websocket.CompressionNoContextTakeover, SMode: websocket.CompressionContextTakeover}
			after = 2
		}
		r.D("second_pair", fmt.Sprintf("%+v after %d steps", o2, after))
		r.S.Go("pair2", func() {
			for k := 0; k < after; k++ {
				r.S.Park("a.pair2")
			}
			cli2, srv2, _, _, err := r.LibPair("p1", o2)
			if err != nil {
				r.Violate("handshake-failed", "libpair", "second pair: %v", err)
				return
			}
			defer cli2.CloseNow()
			defer srv2.CloseNow()
			bg := context.Background()
			for k := 0; k < 3; k++ {
				m := Payload{Kind: 3, Len: 700, Seed: 4242}.Bytes() // the same content every time: back-references
				for _, d := range [][2]*websocket.Conn{{cli2, srv2}, {srv2, cli2}} {
					r.S.Park("a.pair2.msg")
					if err := d[0].Write(bg, websocket.MessageBinary, m); err != nil {
						r.Violate("write-error", "write", "second pair: write failed without faults: %v", err)
						return
					}
					_, got, err := d[1].Read(bg)
					if err != nil || !bytes.Equal(got, m) {
						r.Violate("read-error", "read", "second pair: message %d not received intact: %d bytes, err %v", k, len(got), err)
						return
					}
				}
			}
			r.S.Count("probe.second-pair")
		})
	}
	// an observer that looks at the writers' buffers while their calls are in progress
	r.S.Go("watch", func() {
		for k := 0; k < 60; k++ {
			r.S.ParkE("a.watch", func() bool { return len(r.inflight) > 0 || dirs[0].got == len(dirs[0].msgs) && dirs[1].got == len(dirs[1].msgs) }, nil)
			if len(r.inflight) == 0 {
				return
			}
			r.checkInflight()
		}
	})
	r.S.Loop()
	if r.S.Aborted != "" {
		if r.S.Aborted == "sim-time" {
			r.Violate("stuck", "libpair", "exchange did not finish (no faults injected): parked=%v got=%d/%d,%d/%d", r.S.ParkedIDs(), dirs[0].got, len(c2s), dirs[1].got, len(s2c))
		}
		return
	}
	for _, d := range dirs {
		if d.got != len(d.msgs) && len(r.Viol) == 0 {
			r.Violate("missing-messages", "read", "%s: received %d of %d messages", d.name, d.got, len(d.msgs))
		}
	}
	// Independent decode of what was on the wire.
	checkTap(r, "c2s", ce.Out().Tap, true, defl, !nct, c2s)
	checkTap(r, "s2c", se.Out().Tap, false, defl, !nct, s2c)
}

func describe(ms []sentMsg) []string {
	var out []string
	for _, m := range ms {
		out = append(out, fmt.Sprintf("t%d %s api%d %v", m.Typ, m.P, m.API, m.Chunk))
	}
	return out
}

// checkTap decodes a recorded direction with the reference decoder and
// compares the messages with what was written.
func checkTap(r *Run, name string, tap []byte, fromClient, deflate, takeover bool, sent []sentMsg) {
	frames, rest, _, err := wsref.ParseAll(tap)
	if err != nil {
		r.Violate("tap-parse", "tap", "%s: %v at offset %d", name, err, rest)
		return
	}
	if rest != len(tap) {
		r.Violate("tap-trailing", "tap", "%s: %d trailing bytes that are not a complete frame while the connection is open", name, len(tap)-rest)
	}
	dec := &wsref.Decoder{ExpectMasked: fromClient, Deflate: deflate, Takeover: takeover}
	i := 0
	for _, f := range frames {
		for _, ev := range dec.Feed(f) {
			switch ev.Kind {
			case wsref.EvViolation:
				r.Violate("tap-violation", "tap", "%s: frame %d: %s", name, ev.Frame, ev.What)
				return
			case wsref.EvMsg:
				if i >= len(sent) {
					r.Violate("tap-extra-message", "tap", "%s: more messages on the wire than written", name)
					return
				}
				if ev.InflateErr != nil {
					r.Violate("tap-inflate", "tap", "%s: message %d does not inflate: %v", name, i, ev.InflateErr)
				}
				if int(ev.Type) != int(sent[i].Typ) {
					r.Violate("tap-type", "tap", "%s: message %d type %d, written %d", name, i, ev.Type, sent[i].Typ)
				}
				if k := firstDiff(ev.Payload, sent[i].Data); k >= 0 {
					r.Violate("tap-payload", "tap", "%s: message %d differs from what was written at byte %d (wire %d bytes, written %d)", name, i, k, len(ev.Payload), len(sent[i].Data))
				}
				if ev.Compressed {
					r.S.Count("probe.compressed-msg")
				}
				i++
			}
		}
	}
	if i != len(sent) && len(r.Viol) == 0 {
		r.Violate("tap-missing", "tap", "%s: %d messages on the wire, %d written", name, i, len(sent))
	}
}

var _ = simrt.ChunkAll

func b2i(b bool) int {
	if b {
		return 1
	}
	return 0
}
