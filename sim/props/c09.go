package props

import (
	"context"
	"fmt"
	"io"
	"time"

	"nhooyr.io/websocket"

	"verifsim/simrt"
	"verifsim/wsref"
)

// C09 — Close, CloseNow and blocked calls end in bounded time whatever the
// peer does (fault_enumeration over adversary x stall offset x local state x call).

func init() {
	register(&Prop{ID: "C09", Run: runC09, Enum: enumC09, Quick: 6000, Thorough: 400000, Level: "fault_enumeration",
		Exhaustive: "adversary (12 kinds) x every stall offset k of the scripted frame x local state (12) x call (Close, CloseNow, CloseRead self-close) x role"})
}

var c09Adv = []string{"silent", "stall-data2", "stall-data4", "stall-data10", "stall-close", "flood", "huge", "never-reads", "half-close", "echo", "never-reads-sends-pongs", "late-ping-stall", "reads-at-deadline", "cut-data-eof", "cut-data-reset"}
var c09State = []string{"idle", "reader-blocked", "half-read-in-frame", "half-read-frame-end", "closeread", "writer-blocked", "ping-waiting", "closeread+ping-waiting", "after-writer-misuse", "closed-then-closeread", "write-waiting-for-open-writer", "writer-left-buffer-nearly-full"}
var c09Call = []string{"Close", "CloseNow", "none"}
var c09EchoDelays = []time.Duration{0, 4900 * time.Millisecond, 5100 * time.Millisecond}

// c09Frame builds the frame a stall adversary sends partially.
func c09Frame(adv int) wsref.Frame {
	switch adv {
	case 1:
		return wsref.Frame{Fin: true, Opcode: wsref.OpBinary, Payload: make([]byte, 100)}
	case 2, 13, 14:
		return wsref.Frame{Fin: true, Opcode: wsref.OpBinary, Payload: make([]byte, 200)}
	case 3:
		return wsref.Frame{Fin: true, Opcode: wsref.OpBinary, Payload: make([]byte, 200), ForceEnc: 2}
	case 4:
		return wsref.Frame{Fin: true, Opcode: wsref.OpClose, Payload: wsref.ClosePayload(1000, "bye")}
	}
	return wsref.Frame{}
}

func c09FrameLen(adv int, peerIsClient bool) int {
	f := c09Frame(adv)
	f.Masked = peerIsClient
	return len(wsref.AppendFrame(nil, f))
}

func enumC09(tier string) [][]uint32 {
	var out [][]uint32
	stride := 1
	if tier != "thorough" {
		stride = 9
	}
	for role := 0; role < 2; role++ {
		for adv := 0; adv < len(c09Adv); adv++ {
			ks := []int{0}
			if adv >= 1 && adv <= 4 || adv >= 13 {
				ks = nil
				n := c09FrameLen(adv, role == 0)
				for k := 1; k < n; k++ {
					// always include the header bytes and the first payload bytes
					if k <= 16 || k%stride == 0 || k == n-1 {
						ks = append(ks, k)
					}
				}
			}
			if adv == 9 {
				ks = []int{0, 1, 2}
			}
			if adv == 12 {
				ks = []int{0, 1}
			}
			for _, k := range ks {
				for st := 0; st < len(c09State); st++ {
					for call := 0; call < 3; call++ {
						if call == 2 && st != 4 {
							continue
						}
						if tier != "thorough" && (k+st+call+adv)%2 == 1 && (adv >= 1 && adv <= 4 || adv >= 13) && k > 16 {
							continue
						}
						out = append(out, []uint32{uint32(role), uint32(adv), uint32(k), uint32(st), uint32(call)})
					}
				}
			}
		}
	}
	return out
}

func runC09(r *Run) {
	t := r.Tape
	role := t.Draw(2) // 0: library is server (peer masks), 1: library is client
	adv := t.Draw(len(c09Adv))
	var k int
	peerIsClient := role == 0
	switch {
	case adv >= 1 && adv <= 4 || adv >= 13:
		n := c09FrameLen(adv, peerIsClient)
		k = 1 + t.Draw(n-1)
	case adv == 9:
		k = t.Draw(3)
	case adv == 12:
		k = t.Draw(2)
	default:
		t.Draw(1)
	}
	st := t.Draw(len(c09State))
	call := t.Draw(3)
	if call == 2 && st != 4 {
		call = t.Draw(2)
	}
	compress := t.Draw(2) == 1
	preDelay := []time.Duration{0, time.Second, 7 * time.Second}[t.Draw(3)]
	// a bystander: another caller whose own short context ends while the call is in progress
	by := t.Weighted(50, 25, 25) // none, Ping(ctx 1 s), Write(ctx 1 s)
	byDelay := []time.Duration{0, 300 * time.Millisecond, 4500 * time.Millisecond}[t.Draw(3)]
	zeroWindow := t.Pct(50)
	// discardRace: Close's handshake is discarding the rest of a half-read frame
	// whose last bytes have not arrived yet; a bystander's large Write is stuck in
	// the transport (the peer does not read) and its context ends, so the timeout
	// watcher closes the connection; the missing payload bytes arrive in the window
	// between the connection being marked closed and its transport being closed.
	// Close must still return.
	discardRace := st == 2 && adv == 7 && call == 0
	if discardRace {
		by, zeroWindow = 2, false
		if byDelay > time.Second {
			byDelay = 300 * time.Millisecond
		}
	}

	o := RawOpts{LibClient: role == 1}
	if compress {
		o.Mode, o.Ext = websocket.CompressionContextTakeover, "permessage-deflate"
	}
	rc, err := r.newRawConn("c0", o)
	if err != nil {
		r.Violate("handshake-failed", "raw", "handshake failed: %v", err)
		return
	}
	c, peer := rc.C, rc.Peer
	sig := fmt.Sprintf("state=%s,call=%s,adv=%s", c09State[st], c09Call[call], c09Adv[adv])
	if adv >= 1 && adv <= 4 || adv >= 13 {
		f := c09Frame(adv)
		f.Masked = peerIsClient
		hdr := len(wsref.AppendFrame(nil, f)) - len(f.Payload)
		if k < hdr {
			sig += ",cut=header"
		} else {
			sig += ",cut=payload"
		}
	}
	if by != 0 {
		sig += ",by=" + []string{"", "ping", "write"}[by]
	}
	r.Class = sig
	r.D("bystander", []string{"none", "ping", "write"}[by])
	r.D("bystander_delay", byDelay.String())
	r.D("role_lib_client", o.LibClient)
	r.D("adversary", c09Adv[adv])
	r.D("k", k)
	r.D("state", c09State[st])
	r.D("call", c09Call[call])
	r.D("compress", compress)
	r.D("pre_delay", preDelay.String())
	r.Nontrivial = true
	r.S.MaxSim = 70 * time.Second
	r.S.MaxSteps = 20000
	r.S.Stick = []int{0, 60}[t.Draw(2)]
	r.S.Count("fault.adv-" + c09Adv[adv])
	// tier 2: the library's own hand-over points (a timeout watcher on its way into
	// close() while the frame writer it watched completes, two closers, ...)
	r.DrawYields()

	// (12: the peer does not read until the very instant at which a write timeout
	// of the library is due - the 5 s of the Close frame, or the bystander's 1 s -
	// and then drains everything and echoes)
	neverReads := adv == 7 || adv == 10 || adv == 12
	if neverReads || st == 5 {
		rc.Lib.Out().Cap = 4096
		if neverReads && st != 5 && (zeroWindow || adv == 10) {
			rc.Lib.Out().Cap = 0 // the very first byte the library writes blocks
		}
		rc.Lib.Out().HardCap = true
	}
	never := time.Duration(-1)
	type ret struct {
		name string
		at   time.Duration
	}
	rets := map[string]*time.Duration{}
	track := func(name string) *time.Duration {
		d := never
		rets[name] = &d
		return &d
	}
	stateReady := false
	callStarted := false
	var t0, t1 time.Duration = never, never
	var crDone, crStart time.Duration = never, never
	var byStart, byEnd time.Duration = never, never
	closeSeenAt := never // when the peer had the library's whole Close frame
	_ = crStart

	// ---- setup traffic from the peer (before the adversary's bytes)
	var pre []byte
	if st == 2 || st == 3 {
		// first fragment of a message (100 bytes, not final)
		pre = peer.Encode(wsref.Frame{Fin: false, Opcode: wsref.OpBinary, Payload: make([]byte, 100)})
	}
	// adversary bytes
	var advBytes []byte
	if adv >= 1 && adv <= 4 || adv >= 13 {
		advBytes = peer.Encode(c09Frame(adv))[:k]
	}
	if call == 2 {
		// CloseRead closes by itself: the peer sends a data message
		advBytes = append(peer.Encode(wsref.Frame{Fin: true, Opcode: wsref.OpText, Payload: []byte("unexpected")}), advBytes...)
	}
	// cut-data adversaries: the stream ends (EOF / reset) inside the frame
	endStream := func() {
		switch adv {
		case 13:
			rc.Raw.CloseWrite()
		case 14:
			in := rc.Lib.In()
			r.S.Lock()
			in.CutAt = in.Written
			in.CutErr = simrt.ErrReset
			r.S.Unlock()
			r.S.Kick()
		}
	}
	if st != 2 && st != 3 {
		peer.Inject(append(pre, advBytes...))
		advBytes = nil
		endStream()
	} else if discardRace {
		peer.Inject(pre[:len(pre)-30])
		rest := pre[len(pre)-30:]
		r.ForceYield("close.flagged")
		r.S.Go("resumer", func() {
			r.S.ParkE("a.resumer", func() bool { return r.YieldSeenLocked("close.flagged") > 0 || t1 != never }, nil)
			if t1 == never {
				peer.Inject(rest)
				r.S.Kick()
				r.S.Count("probe.discarded-payload-completes-between-closed-flag-and-transport-close")
			}
		})
	} else {
		peer.Inject(pre) // adversary bytes follow once the reader holds its state
	}
	if adv == 8 {
		rc.Raw.CloseWrite()
	}

	// ---- local state actors
	bg := context.Background()
	switch st {
	case 1:
		d := track("reader")
		r.S.Go("reader", func() {
			stateReady = true
			_, rd, err := c.Reader(bg)
			if err == nil {
				// the header of a data frame arrived: block in its payload
				_, _ = io.ReadAll(rd)
			}
			*d = r.S.Now()
		})
	case 2, 3:
		d := track("reader")
		r.S.Go("reader", func() {
			_, rd, err := c.Reader(bg)
			if err == nil {
				n := 50
				if st == 3 {
					n = 100
				}
				buf := make([]byte, n)
				got := 0
				for got < n && err == nil {
					var m int
					m, err = rd.Read(buf[got:])
					got += m
				}
			}
			if advBytes != nil {
				peer.Inject(advBytes)
				endStream()
			}
			stateReady = true
			*d = r.S.Now() // this actor is not blocked in a library call
		})
	case 4:
		dctx := track("closeread-ctx")
		ctx := c.CloseRead(bg)
		crStart = 0
		stateReady = true
		r.S.Go("crwatch", func() {
			<-ctx.Done()
			crDone = r.S.Now()
			*dctx = crDone
			r.S.Kick()
		})
		// CloseRead is idempotent: the context a second call returns is the
		// connection's too and has to be cancelled just the same
		dctx2 := track("closeread-ctx-of-second-call")
		ctx2 := c.CloseRead(bg)
		r.S.Go("crwatch2", func() {
			<-ctx2.Done()
			*dctx2 = r.S.Now()
			r.S.Kick()
		})
	case 5:
		d := track("writer")
		r.S.Go("writer", func() {
			stateReady = true
			_ = c.Write(bg, websocket.MessageBinary, Payload{Kind: 2, Len: 60000, Seed: 9}.Bytes())
			*d = r.S.Now()
		})
	case 10:
		// a streaming Writer is left open; a second Write waits for it (on the
		// library's own message lock, not in the transport)
		d := track("waiting-writer")
		r.S.Go("opener", func() {
			w, err := c.Writer(bg, websocket.MessageText)
			r.S.Go("waiting-writer", func() {
				stateReady = true
				_ = c.Write(bg, websocket.MessageBinary, []byte("second message"))
				*d = r.S.Now()
			})
			if err == nil {
				// (after the second writer was started: whether this chunk stays in the
				// write buffer or blocks in the transport is the library's business)
				w.Write([]byte("left open"))
			}
		})
	case 11:
		// a streaming Writer has written one chunk that stays in the library's write
		// buffer and fills it to within a few bytes (4080..4096 bytes of payload, so
		// that with either role's header the buffer ends up anywhere from 14 bytes
		// short to overflowing once): the next frame - the Close frame - has to push
		// the buffer out before its own header fits
		nearLen := 4080 + t.Draw(17)
		nearD := track("near-writer")
		r.S.Go("opener", func() {
			if adv != 7 && adv != 10 && adv != 12 {
				// (with a peer that reads, the chunk may as well go out at once)
				nearLen += 200 * t.Draw(2)
			}
			w, err := c.Writer(bg, websocket.MessageBinary)
			// (a chunk that overflows the buffer blocks in the transport when the peer
			// does not read: then this is one more blocked call that has to return)
			stateReady = true
			if err == nil {
				r.S.Count("probe.close-with-a-nearly-full-write-buffer")
				w.Write(Payload{Kind: 2, Len: nearLen, Seed: 11}.Bytes())
			}
			*nearD = r.S.Now()
		})
	case 9:
		// the connection is already closed when CloseRead is called for the first
		// time; closing it again afterwards must still be prompt
		r.S.Go("misuser", func() {
			c.CloseNow()
			ctx := c.CloseRead(bg)
			dctx := track("closeread-ctx")
			r.S.Go("crwatch", func() {
				<-ctx.Done()
				*dctx = r.S.Now()
				r.S.Kick()
			})
			stateReady = true
		})
	case 8:
		// earlier, harmless misuse of the API: a streaming Writer closed twice, a
		// write on the closed Writer, a zero-length Write (the second Close and the
		// late Write return errors; nothing of it may affect a later Close)
		r.S.Go("misuser", func() {
			if adv != 7 && adv != 10 && adv != 12 {
				if w, err := c.Writer(bg, websocket.MessageText); err == nil {
					w.Write([]byte("hello"))
					w.Close()
					w.Close()
					w.Write([]byte("late"))
				}
				c.Write(bg, websocket.MessageBinary, nil)
			}
			stateReady = true
		})
	case 7:
		// CloseRead does the reading while a Ping is in flight
		dctx := track("closeread-ctx")
		ctx := c.CloseRead(bg)
		r.S.Go("crwatch", func() {
			<-ctx.Done()
			*dctx = r.S.Now()
			r.S.Kick()
		})
		d := track("pinger")
		r.S.Go("pinger", func() {
			stateReady = true
			_ = c.Ping(bg)
			*d = r.S.Now()
		})
	case 6:
		d := track("pinger")
		r.S.Go("pinger", func() {
			stateReady = true
			_ = c.Ping(bg)
			*d = r.S.Now()
		})
	default:
		stateReady = true
	}

	// ---- the call
	if call != 2 {
		r.S.Go("caller", func() {
			r.S.ParkE("a.caller.wait", func() bool {
				if !stateReady {
					return false
				}
				switch st {
				case 1:
					// blocked in the transport, or already back (EOF / flood)
					return rc.Lib.InReadLocked() || *rets["reader"] != never
				case 5:
					return rc.Lib.InWriteLocked() || *rets["writer"] != never
				}
				return true
			}, nil)
			if adv == 10 {
				// pongs guessing the payloads of the library's pings ("1", "2", ...),
				// each several times, while the pings themselves are stuck in the transport
				var fs []wsref.Frame
				for _, p := range []string{"1", "1", "1", "2", "2", "x"} {
					fs = append(fs, wsref.Frame{Fin: true, Opcode: wsref.OpPong, Payload: []byte(p)})
				}
				peer.Inject(peer.Encode(fs...))
			}
			r.S.Sleep(preDelay)
			r.S.Park("a.caller.go")
			callStarted = true
			t0 = r.S.Now()
			if call == 0 {
				_ = c.Close(websocket.StatusNormalClosure, "done")
			} else {
				_ = c.CloseNow()
			}
			t1 = r.S.Now()
		})
	}

	if by != 0 && call != 2 {
		r.S.Go("bystander", func() {
			r.S.ParkE("a.by.wait", func() bool { return callStarted }, nil)
			r.S.Sleep(byDelay)
			byStart = r.S.Now()
			ctx, cancel := context.WithTimeout(bg, time.Second)
			defer cancel()
			if by == 1 {
				_ = c.Ping(ctx)
			} else {
				msg := []byte("bystander")
				if discardRace {
					msg = Payload{Kind: 2, Len: 9000, Seed: 6}.Bytes() // more than the pipe takes
				}
				_ = c.Write(ctx, websocket.MessageText, msg)
			}
			byEnd = r.S.Now()
		})
	}

	// ---- the adversary
	reads := !neverReads || adv == 12
	if reads {
		r.S.Go("peer-rd", func() {
			if adv == 12 {
				r.S.ParkE("a.peer-rd.late", func() bool { return callStarted || call == 2 }, nil)
				target := t0 + 5*time.Second
				if by != 0 && k%2 == 0 {
					r.S.ParkE("a.peer-rd.by", func() bool { return byStart != never || t1 != never }, nil)
					if byStart != never {
						target = byStart + time.Second
					}
				}
				if call == 2 {
					target = 5 * time.Second
				}
				r.S.Sleep(target - r.S.Now())
				r.S.Lock()
				rc.Lib.Out().Cap = 4096 // the window opens
				r.S.Unlock()
				r.S.Kick()
				r.S.Count("probe.peer-reads-at-a-write-deadline")
			}
			if st == 5 {
				// keep the pipe full until the call has started
				r.S.ParkE("a.peer-rd.hold", func() bool { return callStarted || call == 2 }, nil)
			}
			seen := 0
			for {
				f := peer.Next(&seen)
				if f == nil {
					return
				}
				if f.Opcode == wsref.OpClose && closeSeenAt == never {
					closeSeenAt = r.S.Now()
				}
				if f.Opcode == wsref.OpClose && adv == 11 {
					// 4.5 s into the wait for the echo: the beginning of a ping, then silence
					r.S.Sleep(4500 * time.Millisecond)
					b := peer.Encode(wsref.Frame{Fin: true, Opcode: wsref.OpPing, Payload: []byte("a ping that never ends")})
					peer.SendBytes(b[:len(b)-5])
					continue
				}
				if f.Opcode == wsref.OpClose && adv == 12 {
					peer.Send(wsref.Frame{Fin: true, Opcode: wsref.OpClose, Payload: f.Payload})
					continue
				}
				if f.Opcode == wsref.OpClose && (adv == 9 || call == 2 && adv == 0 && k == 0) {
					d := c09EchoDelays[k%3]
					r.S.Sleep(d)
					peer.Send(wsref.Frame{Fin: true, Opcode: wsref.OpClose, Payload: f.Payload})
				}
			}
		})
	}
	if adv == 5 || adv == 6 {
		r.S.Go("peer-wr", func() {
			if adv == 6 {
				peer.SendBytes(peer.Encode(wsref.Frame{Fin: true, Opcode: wsref.OpBinary, Payload: make([]byte, 1024), DeclareLen: 1 << 62, ForceEnc: 2}))
			}
			for i := 0; i < 400; i++ {
				var err error
				if adv == 5 {
					err = peer.Send(wsref.Frame{Fin: true, Opcode: wsref.OpBinary, Payload: make([]byte, 64)})
				} else {
					err = peer.SendBytes(make([]byte, 1024))
				}
				if err != nil {
					return
				}
				r.S.Sleep(200 * time.Millisecond)
			}
		})
	}
	r.S.Loop()

	if r.S.Aborted == "max-steps" {
		return
	}
	timedOut := r.S.Aborted == "sim-time"
	if call != 2 {
		bound := 11 * time.Second
		if call == 1 {
			bound = time.Second
		}
		switch {
		case t0 == never:
			if timedOut {
				r.Violate("harness-state-not-reached", sig, "the local state was never established: parked=%v", r.S.ParkedIDs())
			}
			return
		case t1 == never:
			r.Violate("call-not-bounded", sig, "%s started at %v had not returned after %v (bound %v): parked=%v", c09Call[call], t0, r.S.Now()-t0, bound, r.S.ParkedIDs())
			return
		case call == 0 && closeSeenAt != never && closeSeenAt >= t0 && st != 4 && st != 7 && t1 > closeSeenAt+6*time.Second:
			// the wait for the peer's Close frame is bounded by 5 s on its own
			r.Violate("call-not-bounded", sig+",wait-phase", "Close returned %v after the peer had received its Close frame (the wait for the peer's is documented as 5 s)", t1-closeSeenAt)
		case t1-t0 > bound:
			cls := ",took<=6s"
			if t1-t0 > 6*time.Second {
				cls = ",took>6s"
			}
			r.Violate("call-not-bounded", sig+cls, "%s took %v (bound %v)", c09Call[call], t1-t0, bound)
		}
		if byStart != never {
			// the bystander's own context ends after 1 s; the connection closing ends it sooner
			if byEnd == never {
				r.Violate("blocked-call-not-released", sig, "the bystander call started at %v was still blocked at %v (its context ended after 1 s; %s returned at %v)", byStart, r.S.Now(), c09Call[call], t1)
			} else if byEnd > byStart+2*time.Second && byEnd > t1+time.Second {
				r.Violate("blocked-call-not-released", sig, "the bystander call took %v with a 1 s context", byEnd-byStart)
			}
		}
		for _, name := range sortedKeys(rets) {
			if name == "closeread-ctx" || name == "closeread-ctx-of-second-call" {
				continue
			}
			at := *rets[name]
			if at == never {
				r.Violate("blocked-call-not-released", sig, "%s was still blocked in its call %v after %s returned", name, r.S.Now()-t1, c09Call[call])
			} else if at > t1+time.Second {
				r.Violate("blocked-call-not-released", sig, "%s returned %v after %s returned", name, at-t1, c09Call[call])
			}
		}
	}
	if st == 4 {
		closedAt := rc.Lib.CloseTime
		if !rc.Lib.Closed() {
			if call == 2 && timedOut {
				r.Violate("closeread-never-closed", sig, "CloseRead received a data message but the connection was not closed after %v", r.S.Now())
			}
			return
		}
		if crDone == never {
			r.Violate("closeread-ctx-late", sig, "connection closed at %v, CloseRead context still not cancelled at %v", closedAt, r.S.Now())
		} else if crDone > closedAt+time.Second {
			r.Violate("closeread-ctx-late", sig, "connection closed at %v, CloseRead context cancelled %v later", closedAt, crDone-closedAt)
		} else if d2 := *rets["closeread-ctx-of-second-call"]; d2 == never || d2 > closedAt+time.Second {
			r.Violate("closeread-ctx-late", sig+",second-call", "connection closed at %v, the context returned by a second CloseRead call was not cancelled within a second (%v)", closedAt, d2)
		}
	}
}
