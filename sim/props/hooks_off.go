//go:build !verif

package props

// HooksCompiled reports whether the library was built with its verif hooks.
const HooksCompiled = false

func installHooks(r *Run) {}
func removeHooks()        {}
