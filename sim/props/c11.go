package props

import (
	"bufio"
	"bytes"
	"context"
	"encoding/base64"
	"fmt"
	"io"
	"net"
	"net/http"
	"strconv"
	"strings"
	"time"

	"nhooyr.io/websocket"

	"verifsim/simrt"
	"verifsim/wsref"
)

// C11 — Accept upgrades only valid WebSocket requests and answers them
// correctly (real net/http server over the simulated transport).

func init() {
	register(&Prop{ID: "C11", Run: runC11, Enum: enumC11, Quick: 5000, Thorough: 300000, Level: "exploration",
		Exhaustive: "request grammar: method x HTTP version x Connection variants x Upgrade variants x Sec-WebSocket-Version variants x key variants (thorough); covering sample (quick)"})
}

type hdrVariant struct {
	lines []string // header lines ("" list = header absent)
	ok    bool     // satisfies the requirement
	dc    bool     // verdict is a don't-care
}

// methods are case-sensitive (RFC 7230 3.1.1): "get" is not GET
var c11Methods = []string{"GET", "POST", "HEAD", "PUT", "get", "Get", "GETS", "DELETE"}
// (HTTP/1.2 is at least 1.1 and reaches the handler through net/http; HTTP/2.0 request lines never do: the server answers them with 505 itself)
var c11Versions = []string{"HTTP/1.1", "HTTP/1.0", "HTTP/1.2"}
var c11Conn = []hdrVariant{
	{[]string{"Upgrade"}, true, false},
	{[]string{"upgrade"}, true, false},
	{[]string{"UPGRADE"}, true, false},
	{[]string{"keep-alive, Upgrade"}, true, false},
	{[]string{"Upgrade, keep-alive"}, true, false},
	{[]string{"keep-alive", "Upgrade"}, true, false},
	// empty list elements are legal (RFC 7230 section 7) and must be ignored
	{[]string{"keep-alive,, Upgrade"}, true, false},
	{[]string{", Upgrade ,"}, true, false},
	{[]string{"keep-alive"}, false, false},
	{nil, false, false},
	{[]string{"Upgradex"}, false, false},
	{[]string{"x-Upgrade, foo"}, false, false},
}
var c11Upg = []hdrVariant{
	{[]string{"websocket"}, true, false},
	{[]string{"WebSocket"}, true, false},
	{[]string{"websocket, foo"}, true, false},
	{[]string{"foo, websocket"}, true, false},
	{[]string{"foo", "websocket"}, true, false},
	{[]string{", websocket"}, true, false},
	{[]string{"foo,,  websocket"}, true, false},
	{nil, false, false},
	{[]string{"websocketx"}, false, false},
	{[]string{"h2c"}, false, false},
	{[]string{"notwebsocket"}, false, false},
	{[]string{"h2c, x-websocket-legacy"}, false, false},
}
var c11WSVer = []hdrVariant{
	{[]string{"13"}, true, false},
	{[]string{"8"}, false, false},
	{[]string{"12"}, false, false},
	{[]string{"13, 8"}, false, false},
	{nil, false, false},
	{[]string{"13", "8"}, false, true}, // two lines with different values: no single answer
	{[]string{"14"}, false, false},
}

var c11Key16 = base64.StdEncoding.EncodeToString([]byte("0123456789abcdef"))
var c11Keys = []hdrVariant{
	{[]string{c11Key16}, true, false},
	{nil, false, false},
	{[]string{c11Key16, c11Key16}, false, false},
	{[]string{base64.StdEncoding.EncodeToString([]byte("0123456789abcde"))}, false, false},
	{[]string{base64.StdEncoding.EncodeToString([]byte("0123456789abcdefg"))}, false, false},
	{[]string{"!!!!not-base64!!!!"}, false, false},
	{[]string{"  " + c11Key16 + "  "}, true, false},
	{[]string{""}, false, false},
	// decodes to the same 16 bytes but is not the canonical encoding (unused bits of
	// the last character set): valid, and the answer is computed from the text sent
	{[]string{c11Key16[:21] + "h=="}, true, false},
}

type subVariant struct {
	offered   []string // header lines
	supported []string
	want      []string // acceptable selections ("" = none)
}

var c11Subs = []subVariant{
	{nil, nil, []string{""}},
	{[]string{"chat"}, []string{"chat"}, []string{"chat"}},
	{[]string{"chat, superchat"}, []string{"superchat", "chat"}, []string{"superchat"}},
	{[]string{"chat", "superchat"}, []string{"superchat", "chat"}, []string{"superchat"}},
	{[]string{"chat"}, []string{"echo"}, []string{""}},
	{[]string{"chat"}, nil, []string{""}},
	{nil, []string{"chat"}, []string{""}},
	{[]string{"Chat"}, []string{"chat"}, []string{"chat", "Chat", ""}}, // case only: don't care
	{[]string{"a, b, c"}, []string{"c", "a"}, []string{"c"}},
	{[]string{"Chat"}, []string{"Chat"}, []string{"Chat"}},
	{[]string{"echo, MQTT"}, []string{"MQTT", "echo"}, []string{"MQTT"}},
	{[]string{"a ,  b", "v2.Json"}, []string{"v2.Json", "b"}, []string{"v2.Json"}},
}

var c11SubPool = []string{"chat", "Chat", "MQTT", "mqtt", "v2.Json", "x", "superchat", "a", "b", "WAMP.2.json"}

// genSubVariant draws supported and offered lists from a pool with mixed-case
// names. The selection must be the first server-preferred name the client
// offered with the same spelling; where an earlier server name matches an offer
// only up to case, selecting it is acceptable as well. The spelling of the
// answer (server's or client's) is not constrained.
func genSubVariant(t *simrt.Tape) subVariant {
	var sv subVariant
	used := map[string]bool{}
	for n := t.Draw(4); n > 0; n-- {
		p := c11SubPool[t.Draw(len(c11SubPool))]
		if !used[p] {
			used[p] = true
			sv.supported = append(sv.supported, p)
		}
	}
	var toks []string
	for n := t.Draw(5); n > 0; n-- {
		toks = append(toks, c11SubPool[t.Draw(len(c11SubPool))])
	}
	line := ""
	for i, tk := range toks {
		if i > 0 && t.Draw(3) == 0 {
			sv.offered = append(sv.offered, line)
			line = ""
		}
		if line != "" {
			line += []string{", ", ",", " , ", ",  ", ",, ", " ,,"}[t.Draw(6)]
		}
		line += tk
	}
	if line != "" {
		sv.offered = append(sv.offered, line)
	}
	decided := false
	for _, sp := range sv.supported {
		exact, fold := false, ""
		for _, tk := range toks {
			if tk == sp {
				exact = true
			} else if strings.EqualFold(tk, sp) {
				fold = tk
			}
		}
		if exact {
			sv.want = append(sv.want, sp)
			decided = true
			break
		}
		if fold != "" {
			sv.want = append(sv.want, sp, fold)
		}
	}
	if !decided {
		sv.want = append(sv.want, "")
	}
	return sv
}

func enumC11(tier string) [][]uint32 {
	var out [][]uint32
	if tier != "thorough" {
		// covering sample: each variant of each dimension against otherwise valid requests
		dims := []int{len(c11Methods), len(c11Versions), len(c11Conn), len(c11Upg), len(c11WSVer), len(c11Keys), len(c11Subs)}
		for d, n := range dims {
			for v := 0; v < n; v++ {
				p := make([]uint32, 8)
				p[d] = uint32(v)
				out = append(out, p)
			}
		}
		// pairs of bad variants
		for a := 0; a < len(c11Conn); a += 2 {
			for b := 0; b < len(c11Keys); b += 2 {
				out = append(out, []uint32{0, 0, uint32(a), 0, 0, uint32(b), 0, 0})
			}
		}
		return out
	}
	for m := range c11Methods {
		for v := range c11Versions {
			for a := range c11Conn {
				for b := range c11Upg {
					for c := range c11WSVer {
						for k := range c11Keys {
							out = append(out, []uint32{uint32(m), uint32(v), uint32(a), uint32(b), uint32(c), uint32(k), uint32((m + a + b + c + k) % len(c11Subs)), 0})
						}
					}
				}
			}
		}
	}
	return out
}

type hijackCounter struct {
	http.ResponseWriter
	n *int
}

func (h hijackCounter) Hijack() (net.Conn, *bufio.ReadWriter, error) {
	*h.n++
	return h.ResponseWriter.(http.Hijacker).Hijack()
}

// readHTTPResponse reads one response (status, headers, body by Content-Length).
func readHTTPResponse(br *bufio.Reader, head bool) (status int, hdr http.Header, body []byte, err error) {
	line, err := br.ReadString('\n')
	if err != nil {
		return 0, nil, nil, err
	}
	parts := strings.SplitN(strings.TrimSpace(line), " ", 3)
	if len(parts) < 2 {
		return 0, nil, nil, fmt.Errorf("bad status line %q", line)
	}
	status, _ = strconv.Atoi(parts[1])
	hdr = http.Header{}
	for {
		l, e := br.ReadString('\n')
		if e != nil {
			return status, hdr, nil, e
		}
		l = strings.TrimRight(l, "\r\n")
		if l == "" {
			break
		}
		if i := strings.IndexByte(l, ':'); i > 0 {
			hdr.Add(strings.TrimSpace(l[:i]), strings.TrimSpace(l[i+1:]))
		}
	}
	if status == 101 || head {
		return status, hdr, nil, nil
	}
	if cl := hdr.Get("Content-Length"); cl != "" {
		n, _ := strconv.Atoi(cl)
		body = make([]byte, n)
		_, err = io.ReadFull(br, body)
	}
	return status, hdr, body, err
}

func runC11(r *Run) {
	t := r.Tape
	mi := t.Draw(len(c11Methods))
	vi := t.Draw(len(c11Versions))
	ci := t.Draw(len(c11Conn))
	ui := t.Draw(len(c11Upg))
	wi := t.Draw(len(c11WSVer))
	ki := t.Draw(len(c11Keys))
	si := t.Draw(len(c11Subs))
	// random runs are biased towards valid requests (the interesting
	// hijack / pipelining path); enumerated prefixes force 0 here
	// 25% unconstrained (mostly several faults at once), 35% valid requests, 40% valid in
	// every dimension but one, so that one fault is not masked by another
	if b := t.Draw(20); b >= 5 {
		vm, vv, vc, vu, vw, vk := mi, vi, ci, ui, wi, ki
		mi, vi = 0, 0
		ci, ui, wi = ci%8, ui%7, 0
		ki = []int{0, 6, 8}[ki%3]
		if b >= 12 {
			switch t.Draw(6) {
			case 0:
				mi = vm
			case 1:
				vi = vv
			case 2:
				ci = vc
			case 3:
				ui = vu
			case 4:
				wi = vw
			case 5:
				ki = vk
			}
		}
	}
	nPipe := t.Draw(3)
	origin := t.Draw(3) // 0 none, 1 same host, 2 same host upper case
	compress := t.Draw(2) == 1
	method, version := c11Methods[mi], c11Versions[vi]
	cv, uv, wv, kv, sv := c11Conn[ci], c11Upg[ui], c11WSVer[wi], c11Keys[ki], c11Subs[si]
	if t.Pct(40) {
		sv = genSubVariant(t)
		si = len(c11Subs)
	}
	valid := method == "GET" && version != "HTTP/1.0" && cv.ok && uv.ok && wv.ok && kv.ok
	// the handler sits behind a middleware whose ResponseWriter does not expose
	// http.Hijacker (http.TimeoutHandler, a plain wrapper struct): the connection
	// cannot be taken over, so nothing may be answered with 101
	noHijack := t.Pct(8)
	if noHijack {
		valid = false
	}
	dontCare := wv.dc
	if !valid {
		nPipe = 0
	}
	// the client shuts down its sending side right after the request (printf | nc,
	// a half-closing proxy) and the handler is busy for a moment before it calls
	// Accept: net/http's background read sees the end of the stream and cancels
	// the request's context. Whether the request is upgraded depends on the
	// request alone, so a valid one must still get its 101.
	halfClose := !noHijack && t.Pct(12)
	// (only where a protocol will be selected: without a selection Accept has no
	// value of its own for that header, and what a middleware's line means then is
	// not the library's business)
	preset := t.Pct(15)
	for _, w := range sv.want {
		if w == "" {
			preset = false
		}
	}
	if len(sv.want) == 0 || len(sv.offered) == 0 {
		preset = false
	}
	sig := fmt.Sprintf("valid=%v", valid)
	if noHijack {
		sig += ",no-hijacker"
	}
	if halfClose {
		sig += ",client-half-closed"
	}
	r.Class = fmt.Sprintf("%s/%s/%s/c%d/u%d/w%d/k%d/s%d/p%d", sig, method, version, ci, ui, wi, ki, si, nPipe)
	r.Nontrivial = true
	r.S.MaxSim = 2 * time.Minute
	r.S.MaxSteps = 20000
	r.S.Stick = []int{0, 60}[t.Draw(2)]

	// ---- the request bytes
	var req bytes.Buffer
	fmt.Fprintf(&req, "%s /ws %s\r\nHost: sim.test\r\n", method, version)
	add := func(name string, hv hdrVariant) {
		for _, l := range hv.lines {
			fmt.Fprintf(&req, "%s: %s\r\n", name, l)
		}
	}
	add("Connection", cv)
	add("Upgrade", uv)
	add("Sec-WebSocket-Version", wv)
	add("Sec-WebSocket-Key", kv)
	for _, l := range sv.offered {
		fmt.Fprintf(&req, "Sec-WebSocket-Protocol: %s\r\n", l)
	}
	switch origin {
	case 1:
		req.WriteString("Origin: http://sim.test\r\n")
	case 2:
		req.WriteString("Origin: https://SIM.TEST\r\n")
	}
	if compress {
		req.WriteString("Sec-WebSocket-Extensions: permessage-deflate\r\n")
	}
	req.WriteString("\r\n")
	r.D("request", req.String())
	r.D("supported", sv.supported)
	r.D("pipelined_frames", nPipe)

	ce, se := simrt.Pipe(r.S, "h0")
	r.Track(nil, ce, se)
	se.In().RChunk = t.Weighted(3, 2, 2, 2, 2)
	se.In().OpBudget = 600
	ln := simrt.NewListener(r.S, "ln")
	hijacks := 0
	var acceptErr error
	acceptCalled := false
	var serverConn *websocket.Conn
	var got [][]byte
	handlerDone := false
	mux := http.NewServeMux()
	mux.HandleFunc("/plain", func(w http.ResponseWriter, req *http.Request) { io.WriteString(w, "plain") })
	mux.HandleFunc("/ws", func(w http.ResponseWriter, req *http.Request) {
		acceptCalled = true
		if halfClose {
			r.S.Sleep(10 * time.Millisecond)
			if req.Context().Err() != nil {
				r.S.Count("probe.request-context-done-before-accept")
			}
		}
		mode := websocket.CompressionDisabled
		if compress {
			mode = websocket.CompressionContextTakeover
		}
		if preset {
			// a middleware in front of the handler has already written handshake
			// headers into the response (echoing the offer, as handlers for other
			// WebSocket packages do): Accept's own values must replace them
			w.Header().Set("Sec-WebSocket-Protocol", strings.Join(sv.offered, ", "))
			w.Header().Set("Sec-WebSocket-Accept", "c3RhbGUgdmFsdWUgZnJvbSBiZWZvcmU=")
			w.Header().Set("Upgrade", "h2c")
			w.Header().Set("Connection", "keep-alive")
		}
		var rw http.ResponseWriter = hijackCounter{w, &hijacks}
		if noHijack {
			rw = struct{ http.ResponseWriter }{w}
			r.S.Count("probe.response-writer-without-hijacker")
		}
		c, err := websocket.Accept(rw, req, &websocket.AcceptOptions{Subprotocols: sv.supported, CompressionMode: mode})
		acceptErr = err
		serverConn = c
		if err != nil {
			if c != nil {
				r.Violate("accept-conn-and-error", sig, "Accept returned both a connection and an error")
			}
			handlerDone = true
			return
		}
		r.Track(c)
		for i := 0; i < nPipe; i++ {
			_, b, e := c.Read(context.Background())
			if e != nil {
				break
			}
			got = append(got, b)
		}
		c.Write(context.Background(), websocket.MessageText, []byte("done"))
		handlerDone = true
		c.Close(websocket.StatusNormalClosure, "")
	})
	srv := &http.Server{Handler: mux}
	go srv.Serve(ln)
	ln.Offer(se)
	peer := NewRawPeer(r, ce, "h0.raw", true, t.U32())
	ce.Fast = true
	var pipelined [][]byte
	payload := req.Bytes()
	for i := 0; i < nPipe; i++ {
		p := Payload{Kind: 3, Len: []int{0, 5, 200, 5000}[t.Draw(4)], Seed: uint32(i + 1)}.Bytes()
		pipelined = append(pipelined, p)
		payload = append(payload, peer.Encode(wsref.Frame{Fin: true, Opcode: wsref.OpBinary, Payload: p})...)
	}
	// the client writes its bytes in 1-3 pieces
	var cuts []int
	for n := t.Draw(3); n > 0; n-- {
		cuts = append(cuts, t.Draw(len(payload)+1))
	}
	sortInts(cuts)
	var status int
	var hdr http.Header
	var rerr error
	var secondStatus int
	var secondErr error
	var frames []wsref.Frame
	r.S.Go("client", func() {
		defer func() {
			srv.Close()
			ln.Close()
		}()
		last := 0
		for _, c := range append(cuts, len(payload)) {
			if c > last {
				if _, err := ce.Write(payload[last:c]); err != nil {
					break
				}
				last = c
				r.S.Park("a.client.piece")
			}
		}
		if halfClose {
			ce.CloseWrite()
		}
		br := bufio.NewReader(ce)
		status, hdr, _, rerr = readHTTPResponse(br, method == "HEAD")
		if rerr != nil {
			return
		}
		if halfClose && status != 101 {
			return
		}
		if status == 101 {
			// frames from the server until it closes
			var buf []byte
			tmp := make([]byte, 4096)
			closeSent := false
			for {
				n, err := br.Read(tmp)
				buf = append(buf, tmp[:n]...)
				fs, _, _, _ := wsref.ParseAll(buf)
				frames = fs
				if !closeSent {
					for _, f := range fs {
						if f.Opcode == wsref.OpClose {
							ce.Write(peer.Encode(wsref.Frame{Fin: true, Opcode: wsref.OpClose, Payload: f.Payload}))
							closeSent = true
						}
					}
				}
				if err != nil {
					return
				}
			}
		}
		// rejected: the connection still belongs to net/http
		if _, err := ce.Write([]byte("GET /plain HTTP/1.1\r\nHost: sim.test\r\n\r\n")); err != nil {
			secondErr = err
			return
		}
		var body []byte
		secondStatus, _, body, secondErr = readHTTPResponse(br, false)
		if secondErr == nil && (secondStatus != 200 || string(body) != "plain") {
			secondErr = fmt.Errorf("second request answered with %d %q", secondStatus, body)
		}
	})
	r.S.Loop()
	if r.S.Aborted != "" {
		if r.S.Aborted == "sim-time" {
			r.Violate("stuck", sig, "handshake did not finish: parked=%v", r.S.ParkedIDs())
		}
		return
	}
	if rerr != nil {
		r.Violate("no-response", sig, "no parsable HTTP response: %v", rerr)
		return
	}
	upgraded := status == 101
	if !upgraded && status < 400 {
		r.Violate("bad-status", sig, "request answered with status %d (neither 101 nor an error status)", status)
	}
	if upgraded != (acceptErr == nil && serverConn != nil) && acceptCalled {
		r.Violate("status-vs-accept", sig, "status %d but Accept returned conn=%v err=%v", status, serverConn != nil, acceptErr)
	}
	if !dontCare {
		if valid && !upgraded {
			r.Violate("valid-request-rejected", sig, "a valid upgrade request was answered with %d (Accept error: %v)", status, acceptErr)
			return
		}
		if !valid && upgraded {
			r.Violate("invalid-request-upgraded", sig+fmt.Sprintf(",m=%s,v=%s,c=%d,u=%d,w=%d,k=%d", method, version, ci, ui, wi, ki), "an invalid upgrade request (method %s, %s, Connection %q, Upgrade %q, version %q, key %q) was upgraded", method, version, cv.lines, uv.lines, wv.lines, kv.lines)
			return
		}
	}
	if upgraded {
		if !headerHasToken(hdr, "Connection", "upgrade") || !headerHasToken(hdr, "Upgrade", "websocket") {
			r.Violate("response-headers", sig, "101 response lacks Connection: Upgrade / Upgrade: websocket: %v", hdr)
		}
		if len(kv.lines) == 1 {
			want := AcceptKey(strings.TrimSpace(kv.lines[0]))
			if hdr.Get("Sec-WebSocket-Accept") != want {
				r.Violate("accept-key", sig, "Sec-WebSocket-Accept %q, want %q", hdr.Get("Sec-WebSocket-Accept"), want)
			}
		}
		if preset {
			r.S.Count("probe.response-headers-preset-by-middleware")
			for _, k := range []string{"Sec-WebSocket-Protocol", "Sec-WebSocket-Accept", "Upgrade", "Connection"} {
				if v := hdr.Values(k); len(v) != 1 {
					r.Violate("response-headers", sig+",preset", "the 101 response carries %d %s lines %q (a value set on the ResponseWriter before Accept survived next to Accept's own)", len(v), k, v)
				}
			}
			if headerHasToken(hdr, "Upgrade", "h2c") || headerHasToken(hdr, "Connection", "keep-alive") {
				r.Violate("response-headers", sig+",preset", "the 101 response still carries the Upgrade/Connection values set before Accept: %v", hdr)
			}
		}
		gotProto := hdr.Get("Sec-WebSocket-Protocol")
		if vals, present := hdr["Sec-Websocket-Protocol"]; present && gotProto == "" {
			// "or none" means no header: an empty one names a protocol nobody offered
			r.Violate("subprotocol", sig+",empty-header", "the 101 response carries a Sec-WebSocket-Protocol header with an empty value %q although no protocol was selected (offered %q, server supports %q)", vals, sv.offered, sv.supported)
		}
		okp := false
		for _, w := range sv.want {
			// (the library compares names case-insensitively and answers with the
			// client's spelling; the spelling of the answer is not constrained)
			if w == gotProto || w != "" && strings.EqualFold(w, gotProto) {
				okp = true
			}
		}
		if !okp {
			r.Violate("subprotocol", sig+fmt.Sprintf(",s=%d", si), "offered %q, server supports %q: selected %q, want one of %q", sv.offered, sv.supported, gotProto, sv.want)
		}
		if serverConn != nil && serverConn.Subprotocol() != gotProto {
			r.Violate("subprotocol", sig, "response says %q, Conn.Subprotocol() says %q", gotProto, serverConn.Subprotocol())
		}
		if hijacks != 1 {
			r.Violate("hijack-count", sig, "Hijack was called %d times for an upgraded request", hijacks)
		}
		if len(got) != nPipe {
			r.Violate("pipelined-frames-lost", sig, "%d of %d frames sent in the same segment as the request were delivered", len(got), nPipe)
		} else {
			for i := range got {
				if !bytes.Equal(got[i], pipelined[i]) {
					r.Violate("pipelined-frames-corrupt", sig, "pipelined message %d differs (got %d bytes, sent %d)", i, len(got[i]), len(pipelined[i]))
				}
			}
			if nPipe > 0 {
				r.S.Count("probe.pipelined-frames-delivered")
			}
		}
		sawDone := false
		for _, f := range frames {
			if f.Opcode == wsref.OpText && string(f.Payload) == "done" {
				sawDone = true
			}
			if f.Masked {
				r.Violate("server-frame-masked", sig, "server sent a masked frame")
			}
		}
		if !sawDone && handlerDone {
			r.Violate("server-message-missing", sig, "the message written by the handler did not arrive; frames: %d", len(frames))
		}
	} else {
		if hijacks != 0 {
			r.Violate("hijacked-on-reject", sig, "Hijack was called %d times although the request was rejected with %d", hijacks, status)
		}
		if acceptCalled && (acceptErr == nil || serverConn != nil) {
			r.Violate("reject-without-error", sig, "status %d but Accept returned conn=%v err=%v", status, serverConn != nil, acceptErr)
		}
		// still net/http's connection: the next request is answered, or the server closed it
		if secondErr != nil && secondErr != io.EOF && !strings.Contains(secondErr.Error(), "EOF") && !strings.Contains(secondErr.Error(), "closed") {
			r.Violate("connection-not-http-anymore", sig, "after the rejected upgrade (status %d) a plain request on the same connection failed: %v", status, secondErr)
		} else if secondErr == nil {
			r.S.Count("probe.keepalive-after-reject")
		}
	}
}

func headerHasToken(h http.Header, key, token string) bool {
	for _, v := range h.Values(key) {
		for _, t := range strings.Split(v, ",") {
			if strings.EqualFold(strings.TrimSpace(t), token) {
				return true
			}
		}
	}
	return false
}
