//go:build race

package simrt

import "runtime"

// The scheduler hands control from goroutine to goroutine through channels
// and one mutex. To the race detector that would order every step after every
// earlier step and hide all races inside the library. These wrappers make the
// simulator's own synchronisation invisible to it, so that only the library's
// (and the standard library's) synchronisation creates happens-before edges.
func raceOff() { runtime.RaceDisable() }
func raceOn()  { runtime.RaceEnable() }

// RaceBuild reports whether this is the race-detector build.
const RaceBuild = true
