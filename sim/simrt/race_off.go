//go:build !race

package simrt

func raceOff() {}
func raceOn()  {}

// RaceBuild reports whether this is the race-detector build.
const RaceBuild = false
