package simrt

import (
	"crypto/sha256"
	"encoding/hex"
	"fmt"
	"hash"
	"runtime"
	"runtime/debug"
	"sort"
	"sync"
	"testing/synctest"
	"time"
)

// Heartbeat, if set, is called every 8192 scheduler steps: the worker uses it to
// show the orchestrator that a long run is still making progress (real time is
// read only here, outside everything the simulation can observe).
var Heartbeat func()


// Entry is one parked goroutine.
type Entry struct {
	ID    string
	seq   int
	ready func() bool // evaluated with Sim.mu held; nil = always eligible
	ch    chan int
	in    bool
	// coin > 0: a yield point whose park is decided by the scheduler: with
	// probability (100-coin)% the entry is released at once, without a pick.
	// Deciding it here (entries sorted by id at a quiescent point) instead of
	// in the yielding goroutine keeps the tape independent of the order in
	// which the Go runtime happens to run goroutines that are runnable at
	// the same time.
	coin int
}

// Sim is the seeded scheduler. Exactly one parked goroutine is released per
// step; the root goroutine (Loop) waits for quiescence (synctest.Wait) before
// the next choice, so simulated time only advances when nothing is eligible.
type Sim struct {
	T *Tape

	mu     quietMutex
	parked []*Entry
	seq    int
	wake   chan struct{}
	step   int
	live   int

	h         hash.Hash
	KeepTrace bool
	DebugElig bool
	Trace     []string

	Start    time.Time
	MaxSteps int
	MaxSim   time.Duration
	Stick    int // percent: keep running the goroutine family picked last
	NoTick   bool // do not advance the clock by 1 ns per scheduler step (see tick)
	last     string

	looping  bool
	Aborted  string
	Panics   []string
	Stats    map[string]int
	draining bool
	drainCh  chan struct{} // closed when cleanup mode starts (ends injected delays)

	actorLogs map[string][]string
	actorIdx  []string
	goids     map[uint64]string // goroutine id -> actor name

	// Gate, if set, is consulted for eligibility of ids (lock models of tier 2).
	Gate func(id string) bool
	// Quiesce, if set, is called by the scheduler after every synctest.Wait,
	// i.e. when every other goroutine of the bubble is durably blocked.
	Quiesce func()
}

// quietMutex is a mutex whose acquire/release are hidden from the race
// detector (see race_on.go).
type quietMutex struct{ mu sync.Mutex }

func (m *quietMutex) Lock() {
	raceOff()
	m.mu.Lock()
	raceOn()
}

func (m *quietMutex) Unlock() {
	raceOff()
	m.mu.Unlock()
	raceOn()
}

// NewSim must be called inside the bubble.
func NewSim(t *Tape) *Sim {
	return &Sim{
		T:         t,
		wake:      make(chan struct{}, 1),
		drainCh:   make(chan struct{}),
		h:         sha256.New(),
		Start:     time.Now(),
		MaxSteps:  20000,
		MaxSim:    time.Hour,
		Stats:     map[string]int{},
		actorLogs: map[string][]string{},
		goids:     map[uint64]string{},
	}
}

// Lock/Unlock expose the simulator mutex to the transport (one lock guards
// scheduler and transport state; ready predicates run with it held).
//
//go:norace
func (s *Sim) Lock() { s.mu.Lock() }

//go:norace
func (s *Sim) Unlock() { s.mu.Unlock() }

//go:norace
func (s *Sim) kick() {
	raceOff()
	select {
	case s.wake <- struct{}{}:
	default:
	}
	raceOn()
}

// Kick wakes the scheduler (state changed without a park).
//
//go:norace
func (s *Sim) Kick() { s.kick() }

// Now is the simulated time since the start of the run.
//
//go:norace
func (s *Sim) Now() time.Duration { return time.Since(s.Start) }

// Step is the number of scheduler steps taken so far.
//
//go:norace
func (s *Sim) Step() int {
	s.mu.Lock()
	defer s.mu.Unlock()
	return s.step
}

// Count increments a reach/fault counter. Never draws.
//
//go:norace
func (s *Sim) Count(k string) {
	s.mu.Lock()
	s.Stats[k]++
	s.mu.Unlock()
}

// CountLocked is Count for callers that hold the lock.
//
//go:norace
func (s *Sim) CountLocked(k string) { s.Stats[k]++ }

//go:norace
func (s *Sim) logLocked(line string) {
	s.h.Write([]byte(line))
	s.h.Write([]byte{'\n'})
	if s.KeepTrace {
		s.Trace = append(s.Trace, line)
	}
}

// Logf appends a line to the global event log (hashed). Only call from the
// goroutine that was released last (so the order is the scheduler's order).
//
//go:norace
func (s *Sim) Logf(format string, a ...any) {
	line := fmt.Sprintf(format, a...)
	s.mu.Lock()
	s.logLocked(line)
	s.mu.Unlock()
}

// ALog appends to a per-actor log; actor logs are hashed at the end in name
// order, so they do not depend on runtime wake-up order.
//
//go:norace
func (s *Sim) ALog(actor, format string, a ...any) {
	line := fmt.Sprintf(format, a...)
	s.mu.Lock()
	if _, ok := s.actorLogs[actor]; !ok {
		s.actorIdx = append(s.actorIdx, actor)
	}
	s.actorLogs[actor] = append(s.actorLogs[actor], line)
	s.mu.Unlock()
}

// Hash finalises and returns the event-log hash.
//
//go:norace
func (s *Sim) Hash() string {
	s.mu.Lock()
	defer s.mu.Unlock()
	names := append([]string(nil), s.actorIdx...)
	sort.Strings(names)
	for _, n := range names {
		s.h.Write([]byte("@" + n + "\n"))
		for _, l := range s.actorLogs[n] {
			s.h.Write([]byte(l))
			s.h.Write([]byte{'\n'})
			if s.KeepTrace {
				s.Trace = append(s.Trace, "@"+n+" "+l)
			}
		}
	}
	return hex.EncodeToString(s.h.Sum(nil))
}

// ParkE parks the calling goroutine until the scheduler releases it (returns
// 0) or somebody cancels the entry (returns the cancel code, never 0).
// prep, if non-nil, runs with the lock held right after registration and
// receives the entry (so that the transport can remember it for cancellation).
//
//go:norace
func (s *Sim) ParkE(id string, ready func() bool, prep func(*Entry)) int {
	s.mu.Lock()
	if s.draining {
		s.mu.Unlock()
		return 0
	}
	s.seq++
	e := &Entry{ID: id, seq: s.seq, ready: ready, ch: make(chan int, 1), in: true}
	if s.DebugElig {
		for _, x := range s.parked {
			if x.ID == id {
				buf := make([]byte, 1<<16)
				n := runtime.Stack(buf, true)
				s.Trace = append(s.Trace, "DUPLICATE PARK "+id+"\n"+string(buf[:n]))
			}
		}
	}
	s.parked = append(s.parked, e)
	if prep != nil {
		prep(e)
	}
	s.mu.Unlock()
	s.kick()
	raceOff()
	code := <-e.ch
	raceOn()
	return code
}

// ParkCoin parks at a yield point; the scheduler flips the coin (see Entry.coin).
//
//go:norace
func (s *Sim) ParkCoin(id string, pct int) {
	s.mu.Lock()
	if s.draining {
		s.mu.Unlock()
		return
	}
	s.seq++
	e := &Entry{ID: id, seq: s.seq, ch: make(chan int, 1), in: true, coin: pct}
	s.parked = append(s.parked, e)
	s.mu.Unlock()
	s.kick()
	raceOff()
	<-e.ch
	raceOn()
}

// Park is ParkE without readiness predicate or cancellation.
//
//go:norace
func (s *Sim) Park(id string) { s.ParkE(id, nil, nil) }

// CancelLocked removes a parked entry and wakes its goroutine with code.
// Caller holds the lock. Returns false if the entry was already released.
//
//go:norace
func (s *Sim) CancelLocked(e *Entry, code int) bool {
	if e == nil || !e.in {
		return false
	}
	for i, x := range s.parked {
		if x == e {
			s.parked = append(s.parked[:i], s.parked[i+1:]...)
			break
		}
	}
	e.in = false
	raceOff()
	e.ch <- code
	raceOn()
	s.kick()
	return true
}

// Go starts an actor goroutine. The run ends when all actors have returned.
//
//go:norace
func (s *Sim) Go(name string, f func()) {
	s.mu.Lock()
	s.live++
	s.mu.Unlock()
	go func() {
		defer func() {
			s.actorDone(name, recover())
		}()
		s.mu.Lock()
		s.goids[curGoid()] = name
		s.mu.Unlock()
		s.Park("a." + name + ".start")
		f()
	}()
}

//go:norace
func (s *Sim) actorDone(name string, r any) {
	if r != nil {
		s.mu.Lock()
		s.Panics = append(s.Panics, fmt.Sprintf("actor %s: %v\n%s", name, r, debug.Stack()))
		s.mu.Unlock()
	}
	s.mu.Lock()
	s.live--
	s.mu.Unlock()
	s.kick()
}

// curGoid returns the id of the calling goroutine (parsed from its stack
// header; used only to give yield-point entries an identity that does not
// depend on the order in which goroutines happen to arrive).
func curGoid() uint64 {
	var buf [40]byte
	n := runtime.Stack(buf[:], false)
	// "goroutine 123 ["
	var id uint64
	for _, c := range buf[10:n] {
		if c < '0' || c > '9' {
			break
		}
		id = id*10 + uint64(c-'0')
	}
	return id
}

// WhoAmI names the calling goroutine: the actor name for goroutines started
// with Go, "lib" for everything else (library and net/http goroutines).
//
//go:norace
func (s *Sim) WhoAmI() string {
	id := curGoid()
	s.mu.Lock()
	defer s.mu.Unlock()
	if n, ok := s.goids[id]; ok {
		return n
	}
	return "lib"
}

// Live returns the number of actors still running.
//
//go:norace
func (s *Sim) Live() int {
	s.mu.Lock()
	defer s.mu.Unlock()
	return s.live
}

// Sleep blocks the caller for d of simulated time (durable).
//
//go:norace
func (s *Sim) Sleep(d time.Duration) {
	s.SleepOr(d, nil)
	// Several sleepers may wake at the same simulated instant; in which order the
	// runtime runs them is not ours to decide (equal timers fire in heap order, and
	// the heap also holds real-time timers). Actors therefore park once more, so
	// that the scheduler orders them.
	if who := s.WhoAmI(); who != "lib" {
		s.Park("z." + who)
	}
}

// SleepOr is Sleep that also ends when cancel is closed, and when the run
// switches to cleanup mode. (An injected transport delay has to end when the
// endpoint is closed, as pending I/O on a real socket does. It must not need
// the fake clock for that: the clock only advances while every goroutine of the
// bubble is durably blocked, and a goroutine waiting for a sync.Mutex is not.)
//
//go:norace
func (s *Sim) SleepOr(d time.Duration, cancel <-chan struct{}) {
	s.mu.Lock()
	dr := s.draining
	ch := s.drainCh
	s.mu.Unlock()
	if dr || d <= 0 {
		return
	}
	t := time.NewTimer(d)
	select {
	case <-t.C:
	case <-ch:
	case <-cancel:
	}
	t.Stop()
	s.kick()
}

// Drain switches to cleanup mode: parks return immediately.
//
//go:norace
func (s *Sim) Drain() {
	s.mu.Lock()
	s.draining = true
	if s.drainCh != nil {
		close(s.drainCh)
		s.drainCh = nil
	}
	ps := s.parked
	s.parked = nil
	for _, e := range ps {
		e.in = false
		raceOff()
		e.ch <- 0
		raceOn()
	}
	s.mu.Unlock()
}

// Looping reports whether the scheduler loop is running (then the caller is
// not the root goroutine).
//
//go:norace
func (s *Sim) Looping() bool {
	s.mu.Lock()
	defer s.mu.Unlock()
	return s.looping
}

// Draining reports cleanup mode.
//
//go:norace
func (s *Sim) Draining() bool {
	s.mu.Lock()
	defer s.mu.Unlock()
	return s.draining
}

// Loop is the scheduler; call it from the bubble's root goroutine. It returns
// when all actors have finished, or a bound was exceeded (Aborted set).
//
//go:norace
func (s *Sim) Loop() {
	s.mu.Lock()
	s.looping = true
	s.mu.Unlock()
	defer func() {
		s.mu.Lock()
		s.looping = false
		s.mu.Unlock()
	}()
	var elig []*Entry
	for {
		raceOff()
		synctest.Wait()
		s.tick()
		raceOn()
		if s.Quiesce != nil {
			s.Quiesce()
		}
		s.mu.Lock()
		if s.live == 0 {
			s.mu.Unlock()
			return
		}
		// undecided yield entries first, one at a time, in id order
		var und *Entry
		for _, e := range s.parked {
			if e.coin > 0 && (und == nil || e.ID < und.ID || e.ID == und.ID && e.seq < und.seq) {
				und = e
			}
		}
		if und != nil {
			pct := und.coin
			und.coin = 0
			if s.T.Draw(100) >= pct {
				for i, x := range s.parked {
					if x == und {
						s.parked = append(s.parked[:i], s.parked[i+1:]...)
						break
					}
				}
				und.in = false
				s.mu.Unlock()
				raceOff()
				und.ch <- 0
				raceOn()
				continue
			}
			s.Stats["yield.parked"]++
			s.mu.Unlock()
			continue
		}
		elig = elig[:0]
		for _, e := range s.parked {
			if e.ready != nil && !e.ready() {
				continue
			}
			if s.Gate != nil && !s.Gate(e.ID) {
				continue
			}
			elig = append(elig, e)
		}
		if len(elig) == 0 {
			s.mu.Unlock()
			if time.Since(s.Start) > s.MaxSim {
				s.Aborted = "sim-time"
				return
			}
			raceOff()
			select {
			case <-s.wake:
			case <-time.After(time.Second):
			}
			raceOn()
			continue
		}
		if s.step >= s.MaxSteps {
			s.Aborted = "max-steps"
			s.mu.Unlock()
			return
		}
		sort.Slice(elig, func(i, j int) bool {
			if elig[i].ID != elig[j].ID {
				return elig[i].ID < elig[j].ID
			}
			return elig[i].seq < elig[j].seq
		})
		var pick *Entry
		if len(elig) > 1 && s.Stick > 0 && s.last != "" {
			for _, e := range elig {
				if e.ID == s.last {
					if s.T.Draw(100) < s.Stick {
						pick = e
					}
					break
				}
			}
		}
		if pick == nil {
			pick = elig[s.T.Draw(len(elig))]
		}
		for i, x := range s.parked {
			if x == pick {
				s.parked = append(s.parked[:i], s.parked[i+1:]...)
				break
			}
		}
		pick.in = false
		s.step++
		if s.step&8191 == 0 && Heartbeat != nil {
			Heartbeat()
		}
		s.last = pick.ID
		if s.DebugElig {
			var ids []string
			for _, e := range elig {
				ids = append(ids, e.ID)
			}
			s.Trace = append(s.Trace, fmt.Sprintf("   elig=%v consumed=%d", ids, s.T.Consumed()))
		}
		s.logLocked(fmt.Sprintf("%d %d %s", s.step, time.Since(s.Start).Microseconds(), pick.ID))
		s.mu.Unlock()
		raceOff()
		pick.ch <- 0
		raceOn()
	}
}

// tick advances the simulated clock by one nanosecond at every scheduling
// point, before anything is chosen. testing/synctest fires timers that are due
// at the same instant in a deliberately random order, which no seed controls;
// with the tick every scheduler step happens at an instant of its own, so
// timers started in different steps (two Close calls with their 5 s timeouts,
// two contexts with the same timeout) never tie. The second Wait lets a timer
// that was due within this nanosecond run to quiescence before the choice.
//
//go:norace
func (s *Sim) tick() {
	if s.NoTick {
		return
	}
	time.Sleep(time.Nanosecond)
	synctest.Wait()
}

// ParkedIDs lists parked entries (diagnostics).
//
//go:norace
func (s *Sim) ParkedIDs() []string {
	s.mu.Lock()
	defer s.mu.Unlock()
	var out []string
	for _, e := range s.parked {
		r := "ready"
		if e.ready != nil && !e.ready() {
			r = "blocked"
		}
		out = append(out, e.ID+":"+r)
	}
	sort.Strings(out)
	return out
}
