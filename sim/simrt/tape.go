// Package simrt is the deterministic simulation runtime: choice tape,
// seeded scheduler over parked goroutines inside a testing/synctest bubble,
// and the simulated transport (simnet.go).
package simrt

import (
	"fmt"
	"path/filepath"
	"runtime"
)

// Tape is the single source of every decision of a run. In generation mode
// Draw takes the next PRNG word (after an optional forced prefix) and records
// it; in replay mode it returns the recorded words and 0 past the end.
// 0 is always the "simplest" choice, which is what the shrinker relies on.
type Tape struct {
	state  uint64
	forced []uint32
	rec    []uint32
	replay []uint32
	pos    int
	isRep  bool
	// DebugLog, if set, receives one line per draw (diagnostics only).
	DebugLog func(string)
}

// NewTape returns a generating tape: first the forced words, then PRNG(seed).
func NewTape(seed uint64, forced []uint32) *Tape {
	return &Tape{state: seed, forced: forced, rec: make([]uint32, 0, 8192)}
}

// ReplayTape returns a tape that replays words and yields 0 past their end.
func ReplayTape(words []uint32) *Tape {
	return &Tape{replay: words, isRep: true, rec: make([]uint32, 0, 8192)}
}

//go:norace
func (t *Tape) next() uint32 {
	// splitmix64
	t.state += 0x9e3779b97f4a7c15
	z := t.state
	z = (z ^ (z >> 30)) * 0xbf58476d1ce4e5b9
	z = (z ^ (z >> 27)) * 0x94d049bb133111eb
	z ^= z >> 31
	return uint32(z >> 32)
}

//go:norace
func (t *Tape) word() uint32 {
	var w uint32
	if t.isRep {
		if t.pos < len(t.replay) {
			w = t.replay[t.pos]
		}
		t.pos++
		t.rec = append(t.rec, w)
		return w
	}
	if t.pos < len(t.forced) {
		w = t.forced[t.pos]
	} else {
		w = t.next()
	}
	t.pos++
	t.rec = append(t.rec, w)
	return w
}

// Draw returns a value in [0,n). n<=1 consumes nothing and returns 0.
//
//go:norace
func (t *Tape) Draw(n int) int {
	if n <= 1 {
		return 0
	}
	v := int(t.word() % uint32(n))
	if t.DebugLog != nil {
		_, f1, l1, _ := runtime.Caller(1)
		_, f2, l2, _ := runtime.Caller(2)
		t.DebugLog(fmt.Sprintf("   draw(%d)=%d #%d at %s:%d <- %s:%d", n, v, len(t.rec), filepath.Base(f1), l1, filepath.Base(f2), l2))
	}
	return v
}

// Pct returns true with probability p percent (false is the simple choice).
//
//go:norace
func (t *Tape) Pct(p int) bool {
	if p <= 0 {
		return false
	}
	if p >= 100 {
		return true
	}
	// value 0 must mean "false": true iff draw falls in the top p slots.
	return t.Draw(100) >= 100-p
}

// Range returns a value in [lo,hi].
//
//go:norace
func (t *Tape) Range(lo, hi int) int {
	if hi <= lo {
		return lo
	}
	return lo + t.Draw(hi-lo+1)
}

// Weighted picks an index with the given weights (index 0 = simplest).
//
//go:norace
func (t *Tape) Weighted(w ...int) int {
	tot := 0
	for _, x := range w {
		tot += x
	}
	if tot <= 0 {
		return 0
	}
	v := t.Draw(tot)
	for i, x := range w {
		if v < x {
			return i
		}
		v -= x
	}
	return len(w) - 1
}

// U32 returns a raw word (used as a content seed).
//
//go:norace
func (t *Tape) U32() uint32 { return t.word() }

// Words returns the words consumed so far.
//
//go:norace
func (t *Tape) Words() []uint32 { return append([]uint32(nil), t.rec...) }

// Consumed is the number of words consumed.
//
//go:norace
func (t *Tape) Consumed() int { return len(t.rec) }

// Mix derives a per-run seed from a batch seed, a property name and an index.
func Mix(seed uint64, prop string, i uint64) uint64 {
	h := seed*0x9e3779b97f4a7c15 + 0x632be59bd9b4e019
	for _, c := range []byte(prop) {
		h = (h ^ uint64(c)) * 0x100000001b3
	}
	h ^= i + 0x9e3779b97f4a7c15 + (h << 6) + (h >> 2)
	h = (h ^ (h >> 30)) * 0xbf58476d1ce4e5b9
	h = (h ^ (h >> 27)) * 0x94d049bb133111eb
	return h ^ (h >> 31)
}

// LocalRNG is a small PRNG for expanding payload descriptors (not the tape).
type LocalRNG struct{ s uint64 }

func NewLocalRNG(seed uint64) *LocalRNG { return &LocalRNG{s: seed*2654435761 + 1} }

//go:norace
func (r *LocalRNG) Next() uint64 {
	r.s += 0x9e3779b97f4a7c15
	z := r.s
	z = (z ^ (z >> 30)) * 0xbf58476d1ce4e5b9
	z = (z ^ (z >> 27)) * 0x94d049bb133111eb
	return z ^ (z >> 31)
}

//go:norace
func (r *LocalRNG) Intn(n int) int {
	if n <= 1 {
		return 0
	}
	return int(r.Next() % uint64(n))
}
