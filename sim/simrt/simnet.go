package simrt

import (
	"runtime"
	"errors"
	"fmt"
	"io"
	"net"
	"os"
	"time"
)

// quietCopy / quietAppend move transport bytes. In the race build they avoid
// the instrumented runtime copy so that the transport's own buffer (which a
// real kernel would synchronise) does not show up in race reports.
//
//go:norace
func quietCopy(dst, src []byte) int {
	if !RaceBuild {
		return copy(dst, src)
	}
	n := len(src)
	if len(dst) < n {
		n = len(dst)
	}
	for i := 0; i < n; i++ {
		dst[i] = src[i]
	}
	return n
}

//go:norace
func quietAppend(dst, src []byte) []byte {
	if !RaceBuild {
		return append(dst, src...)
	}
	if cap(dst)-len(dst) < len(src) {
		nd := make([]byte, len(dst), 2*cap(dst)+len(src))
		quietCopy(nd, dst)
		dst = nd
	}
	n := len(dst)
	dst = dst[:n+len(src)]
	quietCopy(dst[n:], src)
	return dst
}

// Fault/cancel codes delivered to parked transport operations.
const (
	cancelClosed   = 1
	cancelDeadline = 2
)

// ErrReset is the reset-like error of cut-err faults.
var ErrReset = errors.New("simnet: connection reset by peer")

// ErrShortWrite is returned by the short-write-err fault.
var ErrShortWrite = errors.New("simnet: write failed (injected)")

// Chunk policies for how many of the available bytes one op moves.
const (
	ChunkAll   = 0 // everything available / everything that fits
	ChunkOne   = 1 // one byte
	ChunkSmall = 2 // 1..16 bytes
	ChunkRand  = 3 // uniformly 1..avail
	ChunkMixed = 4 // mostly all, sometimes 1..8
)

// Dir is one direction of a connection: a byte queue plus fault state.
type Dir struct {
	Name string
	// ErrWithData: the Read that delivers the last bytes before the end of the
	// stream (EOF, or the error of a cut) returns that error in the same call
	ErrWithData bool
	buf  []byte
	Cap  int // capacity; writer blocks while len(buf) >= Cap
	// HardCap keeps the capacity in force after the op budget is used up
	// (scenarios that need a peer that really never drains).
	HardCap bool

	Written   int64 // bytes accepted from the writer
	Delivered int64 // bytes handed to the reader
	wclosed   bool  // writer side closed: reader gets EOF after draining
	rclosed   bool  // reader side closed: writer gets an error

	// faults; -1 = off
	CutAt    int64 // after this many delivered bytes the reader gets CutErr
	CutErr   error
	StallAt  int64 // after this many delivered bytes nothing more is delivered
	WErrAt   int64 // writer gets ErrShortWrite after this many written bytes
	DropTail bool  // bytes written after a cut are accepted and discarded

	RChunk, WChunk int // chunk policies for the two ops
	// step budget: after this many ops the direction degrades to ChunkAll
	OpBudget int
	ops      int

	// delay fault: each op is delayed with probability DelayPct by one of Delays
	DelayPct int
	Delays   []time.Duration

	Tap     []byte // every byte accepted from the writer, in order (if TapOn)
	TapOn   bool
	fired   map[string]bool
	OnWrite func(total int64) // called with lock held after bytes were accepted
}

func newDir(name string) *Dir {
	return &Dir{Name: name, Cap: 1 << 30, CutAt: -1, StallAt: -1, WErrAt: -1, OpBudget: 4000, fired: map[string]bool{}}
}

// Buffered returns the number of bytes in flight.
func (d *Dir) Buffered() int { return len(d.buf) }

// End is one endpoint of a simulated connection; it implements net.Conn.
type End struct {
	S    *Sim
	Name string
	rd   *Dir // incoming
	wr   *Dir // outgoing
	peer *End

	closed    bool
	closedCh  chan struct{} // closed by Close: ends an injected delay of a pending operation
	rdl, wdl  time.Time
	rEntry    *Entry
	wEntry    *Entry
	rTimer    *time.Timer
	wTimer    *time.Timer
	Fast      bool // scripted-peer endpoint: ops move everything in one step
	CloseStep int  // scheduler step at which Close was called (0 = open)
	CloseTime time.Duration
	NoPark    bool // ops never park (used during handshakes outside the schedule)
	// CloseDelay makes Close return only after this much (simulated) time
	CloseDelay time.Duration
	// RGate, if set, must return true for a Read to make progress (a peer
	// that stops draining). Evaluated with the simulator lock held.
	RGate func() bool
}

// Pipe creates a connection; a is conventionally the client side.
func Pipe(s *Sim, name string) (a, b *End) {
	ab := newDir(name + ".c2s")
	ba := newDir(name + ".s2c")
	a = &End{S: s, Name: name + ".cli", rd: ba, wr: ab, closedCh: make(chan struct{})}
	b = &End{S: s, Name: name + ".srv", rd: ab, wr: ba, closedCh: make(chan struct{})}
	a.peer, b.peer = b, a
	return a, b
}

// In / Out give access to the direction state (for fault configuration).
//
//go:norace
func (e *End) In() *Dir { return e.rd }

//go:norace
func (e *End) Out() *Dir { return e.wr }

//go:norace
func (e *End) Peer() *End { return e.peer }

type simAddr string

func (a simAddr) Network() string { return "sim" }
func (a simAddr) String() string  { return string(a) }

//go:norace
func (e *End) LocalAddr() net.Addr { return simAddr(e.Name) }

//go:norace
func (e *End) RemoteAddr() net.Addr { return simAddr(e.peer.Name) }

//go:norace
func (e *End) chunk(policy int, avail int, d *Dir) int {
	if avail <= 1 {
		return avail
	}
	if d.ops > d.OpBudget {
		return avail
	}
	t := e.S.T
	switch policy {
	case ChunkOne:
		return 1
	case ChunkSmall:
		k := 1 + t.Draw(16)
		if k > avail {
			k = avail
		}
		return k
	case ChunkRand:
		return avail - t.Draw(avail)
	case ChunkMixed:
		if t.Draw(4) == 3 {
			k := 1 + t.Draw(8)
			if k > avail {
				k = avail
			}
			return k
		}
		return avail
	}
	return avail
}

//go:norace
func (e *End) maybeDelay(d *Dir) {
	if d.DelayPct <= 0 || len(d.Delays) == 0 || e.NoPark {
		return
	}
	e.S.mu.Lock()
	hit := e.S.T.Pct(d.DelayPct)
	var dur time.Duration
	if hit {
		dur = d.Delays[e.S.T.Draw(len(d.Delays))]
		e.S.Stats["fault.delay"]++
	}
	closed := e.closed
	e.S.mu.Unlock()
	if hit && !closed {
		e.S.SleepOr(dur, e.closedCh)
	}
}

// readable reports (with lock held) whether a Read would make progress.
//
//go:norace
func (e *End) readable() bool {
	d := e.rd
	if e.closed {
		return true
	}
	if e.RGate != nil && !e.RGate() {
		return false
	}
	if d.CutAt >= 0 && d.Delivered >= d.CutAt {
		return true
	}
	if d.StallAt >= 0 && d.Delivered >= d.StallAt {
		return false
	}
	if len(d.buf) > 0 {
		return true
	}
	return d.wclosed
}

//go:norace
func (e *End) Read(p []byte) (int, error) {
	s := e.S
	if len(p) == 0 {
		return 0, nil
	}
	e.maybeDelay(e.rd)
	s.mu.Lock()
	if e.closed {
		s.mu.Unlock()
		return 0, net.ErrClosed
	}
	if !e.rdl.IsZero() && !time.Now().Before(e.rdl) {
		s.mu.Unlock()
		return 0, os.ErrDeadlineExceeded
	}
	nopark := e.NoPark
	s.mu.Unlock()
	if nopark {
		// handshake phase: only non-blocking reads are supported
		s.mu.Lock()
		defer s.mu.Unlock()
		return e.takeLocked(p, true)
	}
	code := s.ParkE(e.Name+".rd", e.readable, e.setREntry)
	s.mu.Lock()
	defer s.mu.Unlock()
	e.rEntry = nil
	switch code {
	case cancelClosed:
		return 0, net.ErrClosed
	case cancelDeadline:
		return 0, os.ErrDeadlineExceeded
	}
	if s.draining && !e.readable() {
		return 0, net.ErrClosed
	}
	return e.takeLocked(p, false)
}

//go:norace
func (e *End) takeLocked(p []byte, all bool) (int, error) {
	d := e.rd
	d.ops++
	if e.closed {
		return 0, net.ErrClosed
	}
	if d.CutAt >= 0 && d.Delivered >= d.CutAt {
		if !d.fired["cut"] {
			d.fired["cut"] = true
			if d.CutErr == io.EOF {
				e.S.Stats["fault.cut-eof"]++
			} else {
				e.S.Stats["fault.cut-err"]++
			}
		}
		return 0, d.CutErr
	}
	avail := len(d.buf)
	if avail > len(p) {
		avail = len(p)
	}
	if d.CutAt >= 0 && int64(avail) > d.CutAt-d.Delivered {
		avail = int(d.CutAt - d.Delivered)
	}
	if d.StallAt >= 0 && int64(avail) > d.StallAt-d.Delivered {
		avail = int(d.StallAt - d.Delivered)
		if !d.fired["stall"] {
			d.fired["stall"] = true
			e.S.Stats["fault.stall"]++
		}
	}
	if avail == 0 {
		if d.wclosed && len(d.buf) == 0 {
			return 0, io.EOF
		}
		if all {
			return 0, io.EOF
		}
		e.S.Stats["bug.spurious-wakeup"]++
		return 0, fmt.Errorf("simnet: spurious wakeup on %s", e.Name)
	}
	k := avail
	if !all && !e.Fast {
		k = e.chunk(d.RChunk, avail, d)
		if k < avail {
			e.S.Stats["fault.split-read"]++
		}
	}
	if e.S.DebugElig {
		e.S.Trace = append(e.S.Trace, fmt.Sprintf("   %s read %d of %d (len p %d) who=%d", e.Name, k, len(d.buf), len(p), curGoid()))
	}
	quietCopy(p, d.buf[:k])
	d.buf = d.buf[k:]
	d.Delivered += int64(k)
	if len(d.buf) == 0 {
		d.buf = nil
	}
	if d.ErrWithData {
		// the io.Reader contract allows the last bytes and the end of the stream (or
		// the error that ends it) to come back from one and the same call
		if d.CutAt >= 0 && d.Delivered >= d.CutAt {
			if !d.fired["cut"] {
				d.fired["cut"] = true
				if d.CutErr == io.EOF {
					e.S.Stats["fault.cut-eof"]++
				} else {
					e.S.Stats["fault.cut-err"]++
				}
			}
			e.S.Stats["fault.error-with-last-bytes"]++
			return k, d.CutErr
		}
		if d.wclosed && len(d.buf) == 0 && d.CutAt < 0 {
			e.S.Stats["fault.error-with-last-bytes"]++
			return k, io.EOF
		}
	}
	return k, nil
}

//go:norace
func (e *End) writable() bool {
	d := e.wr
	if e.closed || d.rclosed {
		return true
	}
	if d.WErrAt >= 0 && d.Written >= d.WErrAt {
		return true
	}
	return len(d.buf) < d.Cap || d.ops > d.OpBudget && !d.HardCap
}

//go:norace
func (e *End) Write(p []byte) (int, error) {
	s := e.S
	d := e.wr
	total := 0
	for len(p) > 0 {
		e.maybeDelay(d)
		s.mu.Lock()
		if e.closed {
			s.mu.Unlock()
			return total, net.ErrClosed
		}
		if !e.wdl.IsZero() && !time.Now().Before(e.wdl) {
			s.mu.Unlock()
			return total, os.ErrDeadlineExceeded
		}
		nopark := e.NoPark
		s.mu.Unlock()
		if !nopark {
			code := s.ParkE(e.Name+".wr", e.writable, e.setWEntry)
			s.mu.Lock()
			e.wEntry = nil
			switch code {
			case cancelClosed:
				s.mu.Unlock()
				return total, net.ErrClosed
			case cancelDeadline:
				s.mu.Unlock()
				return total, os.ErrDeadlineExceeded
			}
		} else {
			s.mu.Lock()
		}
		if e.closed {
			s.mu.Unlock()
			return total, net.ErrClosed
		}
		if d.rclosed {
			s.mu.Unlock()
			return total, io.ErrClosedPipe
		}
		if d.WErrAt >= 0 && d.Written >= d.WErrAt {
			s.Stats["fault.short-write-err"]++
			s.mu.Unlock()
			return total, ErrShortWrite
		}
		space := d.Cap - len(d.buf)
		d.ops++
		if nopark || e.Fast || s.draining || d.ops > d.OpBudget && !d.HardCap {
			space = len(p)
		}
		if space <= 0 {
			s.mu.Unlock()
			continue
		}
		k := len(p)
		if k > space {
			k = space
			s.Stats["fault.backpressure"]++
		}
		if d.WErrAt >= 0 && int64(k) > d.WErrAt-d.Written {
			k = int(d.WErrAt - d.Written)
		}
		if !e.Fast && !nopark && k > 1 {
			k2 := e.chunk(d.WChunk, k, d)
			if k2 < k {
				s.Stats["fault.split-write"]++
				k = k2
			}
		}
		if d.TapOn {
			d.Tap = quietAppend(d.Tap, p[:k])
		}
		if d.CutAt >= 0 && d.DropTail && d.Written+int64(k) > d.CutAt {
			// keep only what the reader can still get
			keep := d.CutAt - d.Written
			if keep < 0 {
				keep = 0
			}
			d.buf = quietAppend(d.buf, p[:keep])
		} else {
			d.buf = quietAppend(d.buf, p[:k])
		}
		if s.DebugElig {
			s.Trace = append(s.Trace, fmt.Sprintf("   %s wrote %d of %d (buf now %d, cap %d) who=%d", e.Name, k, len(p), len(d.buf), d.Cap, curGoid()))
		}
		d.Written += int64(k)
		if d.OnWrite != nil {
			d.OnWrite(d.Written)
		}
		p = p[k:]
		total += k
		s.mu.Unlock()
		s.kick()
	}
	return total, nil
}

// Inject appends bytes to this endpoint's outgoing direction without parking
// or capacity (scripted peers preload their stream with it).
//
//go:norace
func (e *End) Inject(p []byte) {
	s := e.S
	s.mu.Lock()
	d := e.wr
	if d.TapOn {
		d.Tap = quietAppend(d.Tap, p)
	}
	d.buf = quietAppend(d.buf, p)
	d.Written += int64(len(p))
	s.mu.Unlock()
	s.kick()
}

// Close never parks: it marks the endpoint closed and cancels this
// endpoint's parked operations (what closing a socket does).
//
//go:norace
func (e *End) Close() error {
	s := e.S
	s.mu.Lock()
	if e.closed {
		s.mu.Unlock()
		return net.ErrClosed
	}
	e.closed = true
	if e.closedCh != nil {
		close(e.closedCh)
	}
	if s.DebugElig {
		buf := make([]byte, 4096)
		n := runtime.Stack(buf, false)
		s.Trace = append(s.Trace, fmt.Sprintf("   %s closed at %v by:\n%s", e.Name, time.Since(s.Start), buf[:n]))
	}
	e.CloseStep = s.step
	if e.CloseStep == 0 {
		e.CloseStep = -1
	}
	e.CloseTime = time.Since(s.Start)
	e.wr.wclosed = true
	e.rd.rclosed = true
	s.CancelLocked(e.rEntry, cancelClosed)
	s.CancelLocked(e.wEntry, cancelClosed)
	e.rEntry, e.wEntry = nil, nil
	if e.rTimer != nil {
		e.rTimer.Stop()
	}
	if e.wTimer != nil {
		e.wTimer.Stop()
	}
	linger := e.CloseDelay
	s.mu.Unlock()
	s.kick()
	if linger > 0 && !s.draining {
		// a transport whose Close lingers (SO_LINGER, a TLS close_notify that cannot
		// be written): the effects above are immediate, the call itself returns late
		s.Stats["fault.close-lingers"]++
		s.SleepOr(linger, nil)
	}
	return nil
}

// CloseWrite half-closes: the peer reads EOF after draining, this side can
// still read.
//
//go:norace
func (e *End) CloseWrite() {
	s := e.S
	s.mu.Lock()
	e.wr.wclosed = true
	s.Stats["fault.half-close"]++
	s.mu.Unlock()
	s.kick()
}

// Closed reports whether Close was called on this endpoint.
//
//go:norace
func (e *End) Closed() bool {
	e.S.mu.Lock()
	defer e.S.mu.Unlock()
	return e.closed
}

//go:norace
func (e *End) SetDeadline(t time.Time) error {
	e.SetReadDeadline(t)
	e.SetWriteDeadline(t)
	return nil
}

// SetReadDeadline never parks; it cancels or re-times a parked Read.
//
//go:norace
func (e *End) SetReadDeadline(t time.Time) error {
	s := e.S
	s.mu.Lock()
	defer s.mu.Unlock()
	e.rdl = t
	if e.rTimer != nil {
		e.rTimer.Stop()
		e.rTimer = nil
	}
	if t.IsZero() {
		return nil
	}
	if !time.Now().Before(t) {
		s.CancelLocked(e.rEntry, cancelDeadline)
		e.rEntry = nil
		return nil
	}
	e.rTimer = time.AfterFunc(time.Until(t), func() {
		s.mu.Lock()
		if e.rdl.Equal(t) {
			s.CancelLocked(e.rEntry, cancelDeadline)
			e.rEntry = nil
		}
		s.mu.Unlock()
		s.kick()
	})
	return nil
}

//go:norace
func (e *End) SetWriteDeadline(t time.Time) error {
	s := e.S
	s.mu.Lock()
	defer s.mu.Unlock()
	e.wdl = t
	if e.wTimer != nil {
		e.wTimer.Stop()
		e.wTimer = nil
	}
	if t.IsZero() {
		return nil
	}
	if !time.Now().Before(t) {
		s.CancelLocked(e.wEntry, cancelDeadline)
		e.wEntry = nil
		return nil
	}
	e.wTimer = time.AfterFunc(time.Until(t), func() {
		s.mu.Lock()
		if e.wdl.Equal(t) {
			s.CancelLocked(e.wEntry, cancelDeadline)
			e.wEntry = nil
		}
		s.mu.Unlock()
		s.kick()
	})
	return nil
}

//go:norace
func (e *End) setREntry(en *Entry) { e.rEntry = en }

//go:norace
func (e *End) setWEntry(en *Entry) { e.wEntry = en }

// InRead / InWrite report whether a goroutine is currently parked in this
// endpoint's Read / Write (used by oracles that need "blocked in I/O").
//
//go:norace
func (e *End) InRead() bool {
	e.S.mu.Lock()
	defer e.S.mu.Unlock()
	return e.rEntry != nil
}

//go:norace
func (e *End) InWrite() bool {
	e.S.mu.Lock()
	defer e.S.mu.Unlock()
	return e.wEntry != nil
}

// InReadLocked / InWriteLocked are InRead / InWrite for ready predicates,
// which run with the simulator lock held.
//
//go:norace
func (e *End) InReadLocked() bool { return e.rEntry != nil }

// ClosedLocked is Closed for callers that hold the simulator's lock (park conditions).
func (e *End) ClosedLocked() bool { return e.closed }

//go:norace
func (e *End) InWriteLocked() bool { return e.wEntry != nil }

// Debug describes the endpoint state (diagnostics in violation messages).
//
//go:norace
func (e *End) Debug() string {
	e.S.mu.Lock()
	defer e.S.mu.Unlock()
	gate := "nil"
	if e.RGate != nil {
		gate = fmt.Sprint(e.RGate())
	}
	return fmt.Sprintf("%s{closed=%v in:buf=%d cap=%d delivered=%d wclosed=%v out:buf=%d cap=%d hard=%v ops=%d/%d written=%d rclosed=%v rgate=%s}",
		e.Name, e.closed, len(e.rd.buf), e.rd.Cap, e.rd.Delivered, e.rd.wclosed, len(e.wr.buf), e.wr.Cap, e.wr.HardCap, e.wr.ops, e.wr.OpBudget, e.wr.Written, e.wr.rclosed, gate)
}

// Listener is a simulated net.Listener: connections are offered with Offer.
type Listener struct {
	S      *Sim
	name   string
	ch     chan net.Conn
	closed chan struct{}
}

// NewListener must be called inside the bubble.
func NewListener(s *Sim, name string) *Listener {
	return &Listener{S: s, name: name, ch: make(chan net.Conn, 16), closed: make(chan struct{})}
}

// Offer hands the server side of a connection to Accept.
func (l *Listener) Offer(c net.Conn) {
	raceOff()
	l.ch <- c
	raceOn()
}

func (l *Listener) Accept() (net.Conn, error) {
	raceOff()
	defer raceOn()
	select {
	case c := <-l.ch:
		return c, nil
	case <-l.closed:
		return nil, net.ErrClosed
	}
}

func (l *Listener) Close() error {
	raceOff()
	defer raceOn()
	select {
	case <-l.closed:
	default:
		close(l.closed)
	}
	return nil
}

func (l *Listener) Addr() net.Addr { return simAddr(l.name) }
