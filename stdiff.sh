#!/bin/bash
# usage: stdiff.sh <PROP> [runs] [procs] [seed]  -- determinism debugging: runs the same seeds in several fresh
# processes with full traces and prints, for each run index whose traces differ, the first differing lines.
prop=$1; runs=${2:-40}; procs=${3:-8}; seed=${4:-7}
d=/tmp/stdiff.$prop; rm -rf $d; mkdir -p $d
cd "$(dirname "$(readlink -f "$0")")/.build" || exit 2
for j in $(seq 1 $procs); do
  SIM_MODE=gen SIM_PROP=$prop SIM_OUT=$d/o$j.json SIM_TIER=quick SIM_SEED=$seed SIM_SHARD=0/1 SIM_RUNS=$runs SIM_NOENUM=1 SIM_ALLHASH=1 SIM_DUMPTRACE=1 SIM_DEBUGELIG=$DEBUGELIG GODEBUG=asyncpreemptoff=1 ./sim.plain.test -test.run '^TestSim$' -test.timeout 0 >/dev/null 2>&1 &
done; wait
for i in $(seq 0 $((runs-1))); do
  n=$(md5sum $d/o*.json.trace.$i | awk '{print $1}' | sort -u | wc -l)
  if [ "$n" != 1 ]; then
    echo "== run $i: $n variants"
    a=$d/o1.json.trace.$i
    for j in $(seq 2 $procs); do b=$d/o$j.json.trace.$i; if ! cmp -s $a $b; then diff $a $b | head -6; break; fi; done
  fi
done
echo "done $prop"
