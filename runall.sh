#!/bin/bash
# Runs every registered check (quick by default) and prints one line each.
tier=${1:-quick}; shift
cd /verif
for p in $(python3 -c "import propmeta;print(' '.join(sorted(propmeta.META)))"); do
  out=$(./check $p --tier $tier "$@" 2>&1); rc=$?
  echo "$p rc=$rc $(echo "$out" | grep -E 'tier=' | tail -1)"
  echo "$out" | grep -E "^VIOLATION" | head -5
done
