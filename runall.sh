#!/bin/bash
# Runs registered checks (quick by default) and prints one line each.
# usage: runall.sh [tier] [PROP ...]
tier=${1:-quick}; shift
cd "$(dirname "$0")"
props="$@"
if [ -z "$props" ]; then props=$(python3 -c "import propmeta;print(' '.join(sorted(propmeta.META)))"); fi
for p in $props; do
  out=$(./check $p --tier $tier 2>&1); rc=$?
  echo "$p rc=$rc $(echo "$out" | grep -E 'tier=' | tail -1)"
  echo "$out" | grep -E "^VIOLATION|^KNOWN|^  [a-z]" | cut -c1-300 | head -8
done
