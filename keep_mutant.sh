#!/bin/bash
# usage: keep_mutant.sh <id> <PROP> "<needs>" "<detected-by>"  -- stores /tmp/mut/<id>.out as /verif/seeded/<id>/ and removes the scratch worktree
id="$1"; prop="$2"; needs="$3"; det="$4"
out=/tmp/mut/$id.out; dst=/verif/seeded/$id
mkdir -p $dst
cp $out/patch.diff $dst/patch.diff
cp $(ls $out/*_test.go | head -1) $dst/demo_test.go
[ -f $out/notes.md ] && cp $out/notes.md $dst/notes.md
python3 - "$id" "$prop" "$needs" "$det" <<'PY'
import json,sys
id,prop,needs,det=sys.argv[1:5]
json.dump(dict(id=id, breaks_property=prop, needs_to_manifest=needs,
  confirmed=dict(how="/verif/confirm_mutant.sh %s %s in a fresh scratch worktree of /repo HEAD"%(id,prop), suite_with_change="pass", demo_with_change="fail", demo_without_change="pass"),
  detection=det), open('/verif/seeded/%s/meta.json'%id,'w'), indent=1)
PY
git -C /repo worktree remove --force /tmp/mut/$id 2>/dev/null
rm -rf /tmp/mut/$id.out /tmp/mut/$id.*.log
ls $dst
