#!/bin/bash
# usage: trymut.sh <patch.diff> <PROP> [extra check args]   -- applies a mutant to /repo, runs the check, reverts.
patch="$1"; prop="$2"; shift 2
cd /repo || exit 2
if [ -n "$(git status --porcelain)" ]; then echo "repo dirty"; exit 2; fi
git apply "$patch" || { echo "patch does not apply"; exit 2; }
cd /verif && ./check "$prop" --tier quick "$@" 2>&1 | grep -a -E "VIOLATION|KNOWN|tier=|BUILD|  [a-z-]+/" | cut -c1-400 | head -20
rc=${PIPESTATUS[0]}
cd /repo && git checkout -- . && git status --porcelain
rm -f /verif/replays/*.json
exit $rc
