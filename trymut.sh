#!/bin/bash
# usage: trymut.sh <patch.diff> <PROP> [extra check args]
# Tries a seeded change without touching /repo: the library's HEAD is exported to a
# scratch directory, the patch is applied there, the check runs in scratch mode
# (CHECK_SCRATCH: binaries, evidence and replays below the scratch directory) and the
# scratch directory is removed. Exit status = the check's (1: the change is detected).
patch="$1"; prop="$2"; shift 2
V="$(dirname "$(readlink -f "$0")")"
scratch=$(mktemp -d /tmp/trymut.XXXXXX)
mkdir -p $scratch/repo
git -C /repo archive HEAD | tar -x -C $scratch/repo || { rm -rf $scratch; exit 2; }
( cd $scratch/repo && patch -p1 -s < "$patch" ) || { echo "patch does not apply"; rm -rf $scratch; exit 2; }
CHECK_SCRATCH=$scratch $V/check "$prop" --tier quick "$@" 2>&1 | grep -a -E "VIOLATION|KNOWN|tier=|BUILD|HANG|  [a-z-]+/" | cut -c1-400 | head -20
rc=${PIPESTATUS[0]}
rm -rf $scratch
exit $rc
