#!/bin/bash
# usage: regress_mutants.sh [id ...]  -- applies every kept seeded change (or the named ones) to a scratch copy of /repo in turn (trymut.sh),
# runs the quick check of the property it breaks, reverts, and reports which are (still) detected.
# A patch that no longer applies (the code it touched was repaired since) is reported as "stale".
cd "$(dirname "$(readlink -f "$0")")" || exit 2
V=$(pwd)
ids="$@"; [ -z "$ids" ] && ids=$(ls seeded)
ok=0; miss=0; stale=0
for id in $ids; do
  prop=$(python3 -c "import json;m=json.load(open('seeded/$id/meta.json'));print(m.get('regress_with_check') or m['breaks_property'])")
  out=$(./trymut.sh $V/seeded/$id/patch.diff $prop 2>&1); rc=$?
  if echo "$out" | grep -q "patch does not apply"; then echo "$id stale (patch no longer applies)"; stale=$((stale+1)); continue; fi
  if [ $rc -eq 1 ]; then echo "$id detected by $prop: $(echo "$out" | grep -E '^  [a-z-]+/' | head -1 | cut -c1-160)"; ok=$((ok+1));
  else echo "$id MISSED by $prop (rc=$rc): $(echo "$out" | grep tier= | head -1)"; miss=$((miss+1)); fi
done
echo "detected=$ok missed=$miss stale=$stale"
[ $miss -eq 0 ]
